// Demonstration for change1.diff (property C11).
//
// Placement: copy this file to  tests/c11_demo1.rs  in the crate root.
// Run:       cargo test --offline --test c11_demo1
//
// Uses only the public API of micro_http (HttpConnection, HttpServer, Request, ...).
//
// What it checks: a parse error that is raised while the beginning of a line is already
// buffered from an earlier read (i.e. the client's bytes were segmented in the middle of a
// line) must leave nothing behind.  Whatever is read afterwards has to be handled exactly as
// a newly created connection would handle it.

use std::io::{Read, Write};
use std::os::unix::net::UnixStream;
use std::sync::mpsc;
use std::time::Duration;

use micro_http::{ConnectionError, HttpConnection, HttpServer, Response, StatusCode};

/// What one `try_read` produced: the result plus the URIs of the requests delivered by it.
#[derive(Debug, PartialEq)]
struct Step {
    /// `Ok(())` or the error, rendered with `Display` (the error type has no `PartialEq`).
    result: Result<(), String>,
    delivered: Vec<String>,
}

struct Peer {
    sender: UnixStream,
    conn: HttpConnection<UnixStream>,
    last_was_parse_error: bool,
}

impl Peer {
    fn new() -> Self {
        let (sender, receiver) = UnixStream::pair().unwrap();
        receiver.set_nonblocking(true).unwrap();
        Peer {
            sender,
            conn: HttpConnection::new(receiver),
            last_was_parse_error: false,
        }
    }

    /// Hands exactly `segment` to the connection in a single read.
    fn feed(&mut self, segment: &[u8]) -> Step {
        self.sender.write_all(segment).unwrap();
        let raw = self.conn.try_read();
        self.last_was_parse_error = matches!(raw, Err(ConnectionError::ParseError(_)));
        let result = raw.map_err(|e| e.to_string());
        let mut delivered = Vec::new();
        while let Some(request) = self.conn.pop_parsed_request() {
            delivered.push(request.uri().get_abs_path().to_string());
        }
        Step { result, delivered }
    }
}

/// Feeds `prefix` (segment by segment), checks that it ends in a parse error, then feeds
/// `continuation` to that same connection and to a brand new one and compares.
fn check(prefix: &[&[u8]], continuation: &[&[u8]]) {
    let mut used = Peer::new();
    let mut last = None;
    for segment in prefix {
        last = Some(used.feed(segment));
    }
    assert!(
        used.last_was_parse_error,
        "the prefix was expected to end in a parse error, got {:?}",
        last
    );

    let mut fresh = Peer::new();
    for segment in continuation {
        let on_used = used.feed(segment);
        let on_fresh = fresh.feed(segment);
        assert_eq!(
            on_used,
            on_fresh,
            "after a parse error the segment {:?} was not handled as on a new connection",
            String::from_utf8_lossy(segment)
        );
    }
}

#[test]
fn error_in_headers_with_partial_line_buffered() {
    // The header line that gets rejected arrives in two pieces.
    check(
        &[
            b"GET /rejected HTTP/1.1\r\nContent-Le",
            b"ngth: alpha\r\n\r\n",
        ],
        &[b"GET /next HTTP/1.1\r\n\r\n", b"GET /later HTTP/1.1\r\n\r\n"],
    );
}

#[test]
fn error_in_request_line_with_partial_line_buffered() {
    // A good request, then a bad request line that arrives in two pieces.
    check(
        &[b"GET /first HTTP/1.1\r\n\r\nBOGUS /rej", b"ected HTTP/1.1\r\n\r\n"],
        &[b"GET /next HTTP/1.1\r\n", b"\r\n"],
    );
}

/// Control: the same rejected requests, but every piece ends on a line boundary, so nothing
/// is buffered when the error is raised.  This passes with and without change1.diff and shows
/// that the change needs a mid-line segmentation to manifest.
#[test]
fn control_error_without_buffered_partial_line() {
    check(
        &[b"GET /rejected HTTP/1.1\r\nContent-Length: alpha\r\n\r\n"],
        &[b"GET /next HTTP/1.1\r\n\r\n"],
    );
    check(
        &[b"GET /rejected HTTP/1.1\r\n", b"Content-Length: alpha\r\n\r\n"],
        &[b"GET /next HTTP/1.1\r\n\r\n"],
    );
    check(
        &[b"GET /first HTTP/1.1\r\n\r\n", b"BOGUS /rejected HTTP/1.1\r\n\r\n"],
        &[b"GET /next HTTP/1.1\r\n", b"\r\n"],
    );
}

#[test]
fn rejected_request_is_not_delivered_and_next_one_is() {
    let mut peer = Peer::new();
    assert_eq!(
        peer.feed(b"PUT /rejected HTTP/1.1\r\nContent-Length: 4\r\nContent-Le"),
        Step {
            result: Ok(()),
            delivered: vec![]
        }
    );
    let step = peer.feed(b"ngth: -1\r\n\r\nbody");
    assert!(peer.last_was_parse_error);
    assert!(step.delivered.is_empty());

    // A well-formed request, cut in the middle of its request line.
    assert_eq!(
        peer.feed(b"GET /ne"),
        Step {
            result: Ok(()),
            delivered: vec![]
        }
    );
    assert_eq!(
        peer.feed(b"xt HTTP/1.1\r\n\r\n"),
        Step {
            result: Ok(()),
            delivered: vec!["/next".to_string()]
        }
    );
}

/// Same thing through `HttpServer`: one malformed request must not make the following
/// well-formed request on the same connection fail.
#[test]
fn server_serves_next_request_after_400() {
    let (done_tx, done_rx) = mpsc::channel();
    std::thread::spawn(move || {
        let path = format!("/tmp/c11_demo1_{}.sock", std::process::id());
        std::fs::remove_file(&path).unwrap_or_default();
        let mut server = HttpServer::new(&path).unwrap();
        server.start_server().unwrap();

        let mut client = UnixStream::connect(&path).unwrap();
        assert!(server.requests().unwrap().is_empty()); // accept

        client
            .write_all(b"GET /rejected HTTP/1.1\r\nContent-Le")
            .unwrap();
        assert!(server.requests().unwrap().is_empty()); // first piece
        client.write_all(b"ngth: alpha\r\n\r\n").unwrap();
        assert!(server.requests().unwrap().is_empty()); // parse error, 400 queued
        assert!(server.requests().unwrap().is_empty()); // 400 written
        let mut buf = [0u8; 1024];
        let n = client.read(&mut buf).unwrap();
        assert!(buf[..n].starts_with(b"HTTP/1.1 400"));

        client.write_all(b"GET /next HTTP/1.1\r\n\r\n").unwrap();
        let requests = server.requests().unwrap();
        let uris: Vec<String> = requests
            .iter()
            .map(|r| r.inner().uri().get_abs_path().to_string())
            .collect();
        for request in requests {
            server
                .respond(request.process(|r| Response::new(r.http_version(), StatusCode::NoContent)))
                .unwrap();
        }
        std::fs::remove_file(&path).unwrap_or_default();
        done_tx.send(uris).unwrap();
    });

    let uris = done_rx
        .recv_timeout(Duration::from_secs(10))
        .expect("server scenario panicked or hung");
    assert_eq!(uris, vec!["/next".to_string()]);
}
