// Demonstration 2 for property C09 (no client can wedge the server or starve others).
//
// Placement: copy this file to  <crate root>/tests/c09_demo2.rs
// Run:       cd <crate root> && cargo test --offline --test c09_demo2 -- --nocapture
//
// Uses only the public API of `micro_http` plus std.
//
// Scenario (witness W, misbehaving client B):
//   1. W and B connect.
//   2. B sends two pipelined valid requests in one segment; both are yielded together.
//   3. B shuts down only the READ direction of its socket (no hang-up is reported to the
//      server for that; the server finds out when a write to B fails with EPIPE).
//   4. The application answers the first of B's requests only; the second answer is late.
//      The server tries to write, fails, and has to keep B's connection around, closed,
//      until the late answer has been absorbed.
//   5. W sends a request.
//
// Expected: `requests()` keeps returning Ok, W's request is yielded and answered, and once
// the application finally answers B's second request B's connection is released (B sees
// EPIPE on its still open write direction).

use std::io::{ErrorKind, Read, Write};
use std::net::Shutdown;
use std::os::unix::net::UnixStream;
use std::path::PathBuf;
use std::sync::mpsc;
use std::time::Duration;

use micro_http::{Body, HttpServer, Response, ServerRequest, StatusCode, Version};

fn socket_path(tag: &str) -> PathBuf {
    let mut p = std::env::temp_dir();
    p.push(format!("micro_http_{}_{}.sock", tag, std::process::id()));
    let _ = std::fs::remove_file(&p);
    p
}

fn answer(server: &mut HttpServer, req: ServerRequest, body: &'static [u8]) {
    server
        .respond(req.process(|_| {
            let mut r = Response::new(Version::Http11, StatusCode::OK);
            r.set_body(Body::new(body.to_vec()));
            r
        }))
        .expect("respond() failed");
}

fn scenario() -> Result<(), String> {
    let path = socket_path("c09_demo2");
    let mut server = HttpServer::new(&path).map_err(|e| format!("new: {e:?}"))?;
    server.start_server().map_err(|e| format!("start: {e:?}"))?;

    // Every call of `requests()` below is made only when an event is certainly pending,
    // so it never blocks on a correct server.

    // 1. Both clients connect (the server accepts one connection per call).
    let mut w = UnixStream::connect(&path).unwrap();
    w.set_read_timeout(Some(Duration::from_millis(500))).unwrap();
    assert!(server.requests().map_err(|e| format!("accept W: {e:?}"))?.is_empty());
    let mut b = UnixStream::connect(&path).unwrap();
    assert!(server.requests().map_err(|e| format!("accept B: {e:?}"))?.is_empty());

    // 2. Two pipelined requests from B, yielded together.
    b.write_all(b"GET /b1 HTTP/1.1\r\n\r\nGET /b2 HTTP/1.1\r\n\r\n").unwrap();
    let mut from_b = server.requests().map_err(|e| format!("read B: {e:?}"))?;
    if from_b.len() != 2 {
        return Err(format!("expected 2 pipelined requests from B, got {}", from_b.len()));
    }
    let b2 = from_b.pop().unwrap();
    let b1 = from_b.pop().unwrap();

    // 3. B stops being writable, without any hang-up.
    b.shutdown(Shutdown::Read).unwrap();

    // 4. Only the first request is answered for now. EPOLLOUT fires, the write fails.
    answer(&mut server, b1, b"answer b1");
    server
        .requests()
        .map_err(|e| format!("requests() failed while writing to B: {e:?}"))?;

    // 5. The witness performs its round trip while B's second answer is still outstanding.
    w.write_all(b"GET /witness HTTP/1.1\r\n\r\n").unwrap();
    let mut from_w = server.requests().map_err(|e| {
        format!("requests() failed because of client B while W was waiting: {e:?}")
    })?;
    if from_w.len() != 1 {
        return Err(format!("W's request was not yielded (got {} requests)", from_w.len()));
    }
    if from_w[0].inner().uri().get_abs_path() != "/witness" {
        return Err("the yielded request is not W's".to_string());
    }
    answer(&mut server, from_w.remove(0), b"witness body");
    server
        .requests()
        .map_err(|e| format!("requests() failed while answering W: {e:?}"))?;
    let mut buf = [0u8; 512];
    let n = w.read(&mut buf).map_err(|e| format!("W got no response: {e}"))?;
    let text = String::from_utf8_lossy(&buf[..n]).to_string();
    if !(text.starts_with("HTTP/1.1 200") && text.ends_with("witness body")) {
        return Err(format!("W got an unexpected response: {text:?}"));
    }

    // A few more polls with the late answer still outstanding: B's descriptor stays
    // "writable", so these return at once and must keep returning Ok.
    for i in 0..5 {
        server
            .requests()
            .map_err(|e| format!("requests() failed on idle poll {i}: {e:?}"))?;
    }

    // 6. The late answer arrives; B's connection must now be released.
    answer(&mut server, b2, b"answer b2");
    server
        .requests()
        .map_err(|e| format!("requests() failed after the late answer: {e:?}"))?;
    match b.write(b"GET /b3 HTTP/1.1\r\n\r\n") {
        Err(e) if e.kind() == ErrorKind::BrokenPipe => {}
        other => {
            return Err(format!(
                "B's connection was not released after its last answer: write -> {other:?}"
            ))
        }
    }
    let _ = std::fs::remove_file(&path);
    Ok(())
}

#[test]
fn late_answer_to_a_read_shutdown_client_does_not_fail_polling() {
    let (tx, rx) = mpsc::channel();
    std::thread::spawn(move || {
        let _ = tx.send(scenario());
    });
    match rx.recv_timeout(Duration::from_secs(30)) {
        Ok(Ok(())) => {}
        Ok(Err(msg)) => panic!("C09 violated: {msg}"),
        Err(_) => panic!("C09 violated: the scenario hung (server wedged) or panicked"),
    }
}
