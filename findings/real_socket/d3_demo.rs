// Demonstration 2 for property C10 (refusing an excess client must not disturb the
// 10 existing connections, and their capacity must be regained when they leave).
//
// Placement : tests/c10_refused_client_gone.rs   (integration test, public API only)
// Run       : cargo test --offline --test c10_refused_client_gone -- --nocapture
//
// Scenario (needs a CLOSE AT A PARTICULAR POINT, inside one epoll batch):
//   1. 10 clients connect (server is at capacity).
//   2. Before the server runs again, two things happen, in this order:
//        a. client 3 sends a complete GET,
//        b. an 11th client connects and immediately disconnects again (it does not
//           wait for the 503).
//      The next `requests()` call therefore sees [data on client 3, new connection]
//      and the client to refuse is already gone when the 503 is written to it.
//   3. The server must carry on: `requests()` succeeds and yields client 3's GET, the
//      application answers it and client 3 reads `200`.
//   4. Client 3 then disconnects. Its slot must be regained: a new client is served
//      instead of being refused with 503, and the server goes idle.
//
// The application below is deliberately forgiving (it logs a failed `requests()` call
// and keeps going, as a long-running service would), so that every consequence is
// visible in the output; all observations are asserted at the end.

use std::io::{Read, Write};
use std::os::unix::io::AsRawFd;
use std::os::unix::net::UnixStream;
use std::time::Duration;

use micro_http::{Body, HttpServer, Response, ServerRequest, StatusCode, Version};

fn sock_path(tag: &str) -> String {
    let p = format!(
        "{}/micro_http_{}_{}.sock",
        std::env::temp_dir().display(),
        tag,
        std::process::id()
    );
    let _ = std::fs::remove_file(&p);
    p
}

/// True if the server's epoll descriptor has at least one event pending.
fn server_ready(server: &HttpServer, timeout_ms: i32) -> bool {
    let mut pfd = libc::pollfd {
        fd: server.epoll().as_raw_fd(),
        events: libc::POLLIN,
        revents: 0,
    };
    // SAFETY: valid pointer to one pollfd.
    let n = unsafe { libc::poll(&mut pfd, 1, timeout_ms) };
    n > 0
}

/// Runs `requests()` while the server has pending events (never blocks), at most
/// `max_rounds` times. Yielded requests are collected, errors are logged and counted.
fn pump(server: &mut HttpServer, max_rounds: usize, errors: &mut Vec<String>) -> Vec<ServerRequest> {
    let mut out = vec![];
    for _ in 0..max_rounds {
        if !server_ready(server, 50) {
            break;
        }
        match server.requests() {
            Ok(reqs) => out.extend(reqs),
            Err(e) => errors.push(format!("{e:?}")),
        }
    }
    out
}

fn answer_all(server: &mut HttpServer, reqs: Vec<ServerRequest>, text: &'static str) {
    for req in reqs {
        server
            .respond(req.process(|_| {
                let mut r = Response::new(Version::Http11, StatusCode::OK);
                r.set_body(Body::new(text));
                r
            }))
            .unwrap();
    }
}

fn read_some(sock: &mut UnixStream) -> String {
    sock.set_read_timeout(Some(Duration::from_millis(500)))
        .unwrap();
    let mut buf = vec![0u8; 4096];
    match sock.read(&mut buf) {
        Ok(n) => String::from_utf8_lossy(&buf[..n]).to_string(),
        Err(e) => format!("<nothing: {e}>"),
    }
}

#[test]
fn refusing_a_vanished_client_does_not_disturb_the_others() {
    let path = sock_path("c10_demo2");
    let mut server = HttpServer::new(&path).unwrap();
    server.start_server().unwrap();
    let mut errors: Vec<String> = vec![];

    // 1. Fill the server: 10 clients.
    let mut clients: Vec<UnixStream> = vec![];
    for _ in 0..10 {
        clients.push(UnixStream::connect(&path).unwrap());
        assert!(pump(&mut server, 4, &mut errors).is_empty());
    }
    assert!(errors.is_empty());

    // 2a. Client 3 sends a request ...
    clients[3]
        .write_all(b"GET /three HTTP/1.1\r\n\r\n")
        .unwrap();
    // 2b. ... and an 11th client connects and leaves at once.
    drop(UnixStream::connect(&path).unwrap());

    // 3. The server runs. Client 3's request must come out and be answerable.
    let reqs = pump(&mut server, 8, &mut errors);
    let yielded = reqs.len();
    answer_all(&mut server, reqs, "three");
    let _ = pump(&mut server, 8, &mut errors);
    let answer3 = read_some(&mut clients[3]);

    // 4. Client 3 leaves; a new client takes its place.
    drop(clients.remove(3));
    let _ = pump(&mut server, 50, &mut errors);
    let still_busy = server_ready(&server, 100);

    let mut newcomer = UnixStream::connect(&path).unwrap();
    let _ = pump(&mut server, 4, &mut errors);
    // (A refused newcomer has already been disconnected; the write may then fail.)
    let _ = newcomer.write_all(b"GET /hello HTTP/1.1\r\n\r\n");
    let reqs = pump(&mut server, 4, &mut errors);
    let newcomer_yielded = reqs.len();
    answer_all(&mut server, reqs, "hello");
    let _ = pump(&mut server, 4, &mut errors);
    let answer_new = read_some(&mut newcomer);

    println!("errors returned by requests(): {errors:?}");
    println!("requests yielded for client 3: {yielded}; client 3 received: {answer3:?}");
    println!("server still signalling after client 3 left: {still_busy}");
    println!("requests yielded for newcomer: {newcomer_yielded}; newcomer received: {answer_new:?}");

    let _ = std::fs::remove_file(&path);

    assert!(
        errors.is_empty(),
        "requests() failed for everybody because a refused client had gone: {errors:?}"
    );
    assert_eq!(yielded, 1, "client 3's request was not delivered");
    assert!(answer3.starts_with("HTTP/1.1 200"), "client 3 got {answer3:?}");
    assert!(
        !answer_new.contains("Too many open connections"),
        "newcomer was refused with 503 although only 9 clients are connected"
    );
    assert!(answer_new.starts_with("HTTP/1.1 200"), "newcomer got {answer_new:?}");
    assert!(
        !still_busy,
        "server keeps signalling events for a connection that is gone"
    );
}
