// D4 on real sockets: request, respond, flush_outgoing_writes, then poll.
use micro_http::{Body, HttpServer, Response, StatusCode, Version};
use std::io::{Read, Write};
use std::os::unix::io::AsRawFd;
use std::os::unix::net::UnixStream;

fn readable(fd: i32) -> bool {
    let mut p = libc::pollfd { fd, events: libc::POLLIN, revents: 0 };
    unsafe { libc::poll(&mut p, 1, 200) > 0 }
}

#[test]
fn flush_then_poll() {
    let path = format!("/tmp/d4_demo_{}.sock", std::process::id());
    let _ = std::fs::remove_file(&path);
    let mut server = HttpServer::new(&path).unwrap();
    server.start_server().unwrap();
    let mut c = UnixStream::connect(&path).unwrap();
    assert!(server.requests().unwrap().is_empty());
    c.write_all(b"GET /a HTTP/1.1\r\n\r\n").unwrap();
    let reqs = server.requests().unwrap();
    assert_eq!(reqs.len(), 1);
    for r in reqs {
        let resp = r.process(|_| {
            let mut x = Response::new(Version::Http11, StatusCode::OK);
            x.set_body(Body::new("hello"));
            x
        });
        server.respond(resp).unwrap();
    }
    server.flush_outgoing_writes();
    let mut buf = [0u8; 512];
    let n = c.read(&mut buf).unwrap();
    assert!(n > 0);
    // a second request on the same connection must be served
    c.write_all(b"GET /b HTTP/1.1\r\n\r\n").unwrap();
    let mut yielded = 0;
    for _ in 0..5 {
        if !readable(server.epoll().as_raw_fd()) {
            break;
        }
        let r = server.requests();
        assert!(r.is_ok(), "requests() failed after flush: {:?}", r.err());
        yielded += r.unwrap().len();
    }
    assert_eq!(yielded, 1, "second request was not yielded");
    let _ = std::fs::remove_file(&path);
}
