// D5 on real sockets: a connection that flush_outgoing_writes() marks closed (its write fails with
// EPIPE because the client shut down its read side) is owed nothing, yet it is not released and
// produces no readiness event; it keeps its slot, so a new client is refused although only 9
// connections are alive.
use micro_http::{Body, HttpServer, Response, StatusCode, Version};
use std::io::{Read, Write};
use std::net::Shutdown;
use std::os::unix::io::AsRawFd;
use std::os::unix::net::UnixStream;

fn readable(fd: i32) -> bool {
    let mut p = libc::pollfd { fd, events: libc::POLLIN, revents: 0 };
    unsafe { libc::poll(&mut p, 1, 100) > 0 }
}

fn pump(server: &mut HttpServer) -> Vec<micro_http::ServerRequest> {
    let mut v = Vec::new();
    for _ in 0..50 {
        if !readable(server.epoll().as_raw_fd()) {
            break;
        }
        v.extend(server.requests().expect("requests() failed"));
    }
    v
}

#[test]
fn flush_closed_connection_is_released() {
    let path = format!("/tmp/d5_demo_{}.sock", std::process::id());
    let _ = std::fs::remove_file(&path);
    let mut server = HttpServer::new(&path).unwrap();
    server.start_server().unwrap();

    // 9 healthy idle clients
    let mut healthy = Vec::new();
    for _ in 0..9 {
        healthy.push(UnixStream::connect(&path).unwrap());
        pump(&mut server);
    }
    // the 10th: gets a big answer it never reads (socket no longer "writable"), then sends garbage
    let mut bad = UnixStream::connect(&path).unwrap();
    pump(&mut server);
    bad.write_all(b"GET /big HTTP/1.1\r\n\r\n").unwrap();
    let reqs = pump(&mut server);
    assert_eq!(reqs.len(), 1);
    for r in reqs {
        let resp = r.process(|_| {
            let mut x = Response::new(Version::Http11, StatusCode::OK);
            x.set_body(Body::new(vec![b'x'; 120_000]));
            x
        });
        server.respond(resp).unwrap();
    }
    let r = pump(&mut server); // writes (part of) the answer into the socket buffer; the client does not read it
    assert!(r.is_empty());
    bad.write_all(b"garbage\r\n").unwrap();
    pump(&mut server); // 400 queued, but the socket is not writable: no event
    bad.shutdown(Shutdown::Read).unwrap();
    server.flush_outgoing_writes(); // write fails with EPIPE: the connection is dead and owed nothing
    assert!(!readable(server.epoll().as_raw_fd()), "unexpected readiness after flush");

    // only 9 clients are alive: a newcomer must be served
    let mut newcomer = UnixStream::connect(&path).unwrap();
    pump(&mut server);
    let _ = newcomer.write_all(b"GET /hello HTTP/1.1\r\n\r\n");
    let reqs = pump(&mut server);
    newcomer.set_nonblocking(true).unwrap();
    let mut buf = [0u8; 256];
    let got = newcomer.read(&mut buf).unwrap_or(0);
    assert!(
        reqs.len() == 1,
        "newcomer was not served although only 9 connections are alive (it received {:?})",
        String::from_utf8_lossy(&buf[..got])
    );
    drop(healthy);
    let _ = std::fs::remove_file(&path);
}
