//! Conformance of the `simkernel` stub against the real kernel.
//!
//! A table of micro-scenarios (every sequence of up to 3 actions from a small alphabet,
//! followed by a fixed observation block; plus listener / eventfd / descriptor-number /
//! ready-set scenarios) is executed against both implementations; results must be
//! identical. Only semantics that micro-http's server depends on are covered; buffer
//! capacities are not (the real default send buffer is far larger than any scenario).

use std::os::unix::io::RawFd;

use simkernel::world::{self, Config, FdObj, How, OutThreshold};

use crate::json::{self, J};

#[derive(Clone, Copy, Debug, PartialEq, Eq)]
pub enum Act {
    PSend,
    SSend,
    PShutRd,
    PShutWr,
    PShutRdWr,
    SShutRd,
    SShutWr,
    PClose,
    SRead,
    PRead,
}

const ALPHABET: [Act; 10] = [
    Act::PSend,
    Act::SSend,
    Act::PShutRd,
    Act::PShutWr,
    Act::PShutRdWr,
    Act::SShutRd,
    Act::SShutWr,
    Act::PClose,
    Act::SRead,
    Act::PRead,
];

/// results are rendered as strings and compared
trait Kernel {
    /// a connected pair: S = the server side endpoint (the one micro-http would hold), P = the peer
    fn pair(&mut self, via_listener: bool, pre: &[Act]);
    fn s_write(&mut self, n: usize) -> Result<usize, i32>;
    fn s_read(&mut self, max: usize) -> Result<usize, i32>;
    fn p_write(&mut self, n: usize) -> Result<usize, i32>;
    fn p_read(&mut self, max: usize) -> Result<usize, i32>;
    fn s_shutdown(&mut self, how: How);
    fn p_shutdown(&mut self, how: How);
    fn p_close(&mut self);
    fn p_open(&self) -> bool;
    /// epoll events reported for S registered with `interest`
    fn s_poll(&mut self, interest: u32) -> u32;
    fn p_poll(&mut self, interest: u32) -> u32;
    fn teardown(&mut self);
}

fn r2s(r: Result<usize, i32>) -> String {
    match r {
        Ok(n) => format!("ok{}", n),
        Err(e) => format!("e{}", e),
    }
}

fn apply(k: &mut dyn Kernel, a: Act) -> String {
    match a {
        Act::PSend => {
            if k.p_open() {
                r2s(k.p_write(5))
            } else {
                "-".into()
            }
        }
        Act::SSend => r2s(k.s_write(5)),
        Act::PShutRd => {
            if k.p_open() {
                k.p_shutdown(How::Rd);
            }
            "-".into()
        }
        Act::PShutWr => {
            if k.p_open() {
                k.p_shutdown(How::Wr);
            }
            "-".into()
        }
        Act::PShutRdWr => {
            if k.p_open() {
                k.p_shutdown(How::RdWr);
            }
            "-".into()
        }
        Act::SShutRd => {
            k.s_shutdown(How::Rd);
            "-".into()
        }
        Act::SShutWr => {
            k.s_shutdown(How::Wr);
            "-".into()
        }
        Act::PClose => {
            if k.p_open() {
                k.p_close();
            }
            "-".into()
        }
        Act::SRead => r2s(k.s_read(3)),
        Act::PRead => {
            if k.p_open() {
                r2s(k.p_read(3))
            } else {
                "-".into()
            }
        }
    }
}

const IN: u32 = 0x001;
const OUT: u32 = 0x004;
const RDHUP: u32 = 0x2000;

fn observe(k: &mut dyn Kernel) -> Vec<String> {
    let mut v = Vec::new();
    v.push(format!("S.poll(IN|RDHUP)={:x}", k.s_poll(IN | RDHUP)));
    v.push(format!("S.poll(OUT|RDHUP)={:x}", k.s_poll(OUT | RDHUP)));
    if k.p_open() {
        v.push(format!("P.poll(IN|OUT|RDHUP)={:x}", k.p_poll(IN | OUT | RDHUP)));
    }
    v.push(format!("S.write={}", r2s(k.s_write(7))));
    v.push(format!("S.poll(IN|RDHUP)={:x}", k.s_poll(IN | RDHUP)));
    v.push(format!("S.read={}", r2s(k.s_read(4))));
    v.push(format!("S.read={}", r2s(k.s_read(100))));
    v.push(format!("S.read={}", r2s(k.s_read(100))));
    v.push(format!("S.write={}", r2s(k.s_write(7))));
    v.push(format!("S.poll(OUT|RDHUP)={:x}", k.s_poll(OUT | RDHUP)));
    if k.p_open() {
        v.push(format!("P.read={}", r2s(k.p_read(100))));
        v.push(format!("P.read={}", r2s(k.p_read(100))));
        v.push(format!("P.write={}", r2s(k.p_write(3))));
        v.push(format!("P.poll(IN|OUT|RDHUP)={:x}", k.p_poll(IN | OUT | RDHUP)));
    }
    v
}

// ------------------------------------------------------------------ real kernel

struct Real {
    s: RawFd,
    p: RawFd,
    p_open: bool,
    dir: String,
    n: usize,
}

fn errno() -> i32 {
    std::io::Error::last_os_error().raw_os_error().unwrap_or(0)
}

fn set_nb(fd: RawFd) {
    // SAFETY: plain fcntl on a descriptor we own.
    unsafe {
        let fl = libc::fcntl(fd, libc::F_GETFL);
        libc::fcntl(fd, libc::F_SETFL, fl | libc::O_NONBLOCK);
    }
}

fn real_poll(fd: RawFd, interest: u32) -> u32 {
    // SAFETY: epoll syscalls with valid arguments on descriptors we own.
    unsafe {
        let ep = libc::epoll_create1(0);
        let mut ev = libc::epoll_event { events: interest, u64: 1 };
        libc::epoll_ctl(ep, libc::EPOLL_CTL_ADD, fd, &mut ev);
        let mut out = [libc::epoll_event { events: 0, u64: 0 }; 4];
        let n = libc::epoll_wait(ep, out.as_mut_ptr(), 4, 0);
        libc::close(ep);
        if n > 0 {
            out[0].events
        } else {
            0
        }
    }
}

impl Kernel for Real {
    fn pair(&mut self, via_listener: bool, pre: &[Act]) {
        if !via_listener {
            let mut fds = [0 as RawFd; 2];
            // SAFETY: socketpair with a valid out array.
            let r = unsafe { libc::socketpair(libc::AF_UNIX, libc::SOCK_STREAM, 0, fds.as_mut_ptr()) };
            assert_eq!(r, 0, "socketpair failed");
            self.s = fds[0];
            self.p = fds[1];
            self.p_open = true;
            set_nb(self.s);
            set_nb(self.p);
            return;
        }
        // through a listener: the peer acts BEFORE accept (embryo scenarios)
        use std::os::unix::io::IntoRawFd;
        use std::os::unix::net::{UnixListener, UnixStream};
        self.n += 1;
        let path = format!("{}/conf-{}-{}.sock", self.dir, std::process::id(), self.n);
        let _ = std::fs::remove_file(&path);
        let l = UnixListener::bind(&path).expect("bind");
        let c = UnixStream::connect(&path).expect("connect");
        self.p = c.into_raw_fd();
        self.p_open = true;
        set_nb(self.p);
        for a in pre {
            match a {
                Act::PSend => {
                    let _ = self.p_write(5);
                }
                Act::PShutWr => self.p_shutdown(How::Wr),
                Act::PShutRd => self.p_shutdown(How::Rd),
                Act::PClose => self.p_close(),
                _ => {}
            }
        }
        let (s, _) = l.accept().expect("accept");
        self.s = s.into_raw_fd();
        set_nb(self.s);
        drop(l);
        let _ = std::fs::remove_file(&path);
    }
    fn s_write(&mut self, n: usize) -> Result<usize, i32> {
        let buf = vec![b'x'; n];
        // SAFETY: valid buffer.
        let r = unsafe { libc::send(self.s, buf.as_ptr() as *const libc::c_void, n, libc::MSG_NOSIGNAL) };
        if r < 0 {
            Err(errno())
        } else {
            Ok(r as usize)
        }
    }
    fn s_read(&mut self, max: usize) -> Result<usize, i32> {
        let mut buf = vec![0u8; max];
        // SAFETY: valid buffer.
        let r = unsafe { libc::read(self.s, buf.as_mut_ptr() as *mut libc::c_void, max) };
        if r < 0 {
            Err(errno())
        } else {
            Ok(r as usize)
        }
    }
    fn p_write(&mut self, n: usize) -> Result<usize, i32> {
        let buf = vec![b'y'; n];
        // SAFETY: valid buffer.
        let r = unsafe { libc::send(self.p, buf.as_ptr() as *const libc::c_void, n, libc::MSG_NOSIGNAL) };
        if r < 0 {
            Err(errno())
        } else {
            Ok(r as usize)
        }
    }
    fn p_read(&mut self, max: usize) -> Result<usize, i32> {
        let mut buf = vec![0u8; max];
        // SAFETY: valid buffer.
        let r = unsafe { libc::read(self.p, buf.as_mut_ptr() as *mut libc::c_void, max) };
        if r < 0 {
            Err(errno())
        } else {
            Ok(r as usize)
        }
    }
    fn s_shutdown(&mut self, how: How) {
        let h = match how {
            How::Rd => libc::SHUT_RD,
            How::Wr => libc::SHUT_WR,
            How::RdWr => libc::SHUT_RDWR,
        };
        // SAFETY: valid descriptor.
        unsafe { libc::shutdown(self.s, h) };
    }
    fn p_shutdown(&mut self, how: How) {
        let h = match how {
            How::Rd => libc::SHUT_RD,
            How::Wr => libc::SHUT_WR,
            How::RdWr => libc::SHUT_RDWR,
        };
        // SAFETY: valid descriptor.
        unsafe { libc::shutdown(self.p, h) };
    }
    fn p_close(&mut self) {
        // SAFETY: we own the descriptor.
        unsafe { libc::close(self.p) };
        self.p_open = false;
    }
    fn p_open(&self) -> bool {
        self.p_open
    }
    fn s_poll(&mut self, interest: u32) -> u32 {
        real_poll(self.s, interest)
    }
    fn p_poll(&mut self, interest: u32) -> u32 {
        real_poll(self.p, interest)
    }
    fn teardown(&mut self) {
        // SAFETY: we own the descriptors.
        unsafe {
            libc::close(self.s);
            if self.p_open {
                libc::close(self.p);
            }
        }
        self.p_open = false;
    }
}

// ------------------------------------------------------------------ simulated kernel

struct Sim {
    s: i32,
    conn: usize,
    p_open: bool,
}

fn sim_poll_fd(fd: i32, interest: u32) -> u32 {
    world::with(|w| {
        let ep = w.epoll_create();
        let _ = w.epoll_ctl(ep, 1, fd, interest, 1);
        let r = w.epoll_wait(ep, 0, 4).ok().flatten().unwrap_or_default();
        w.close(ep);
        r.first().map(|e| e.0).unwrap_or(0)
    })
}

impl Kernel for Sim {
    fn pair(&mut self, _via_listener: bool, pre: &[Act]) {
        world::reset(Config { cap_c2s: 200_000, cap_s2c: 200_000, out_threshold: OutThreshold::Quarter, log: false, first_fd: 3, fd_stride: 1 });
        let (s, conn) = world::with(|w| {
            let l = w.bind("/sim/conf.sock").unwrap();
            let conn = w.client_connect("/sim/conf.sock").unwrap();
            (l, conn)
        });
        self.conn = conn;
        self.p_open = true;
        for a in pre {
            match a {
                Act::PSend => {
                    let _ = self.p_write(5);
                }
                Act::PShutWr => self.p_shutdown(How::Wr),
                Act::PShutRd => self.p_shutdown(How::Rd),
                Act::PClose => self.p_close(),
                _ => {}
            }
        }
        self.s = world::with(|w| {
            let fd = w.accept(s).unwrap().unwrap();
            w.set_nonblocking(fd, true).unwrap();
            w.close(s);
            fd
        });
    }
    fn s_write(&mut self, n: usize) -> Result<usize, i32> {
        let buf = vec![b'x'; n];
        world::with(|w| w.srv_write(self.s, &buf)).map(|o| o.unwrap_or(0))
    }
    fn s_read(&mut self, max: usize) -> Result<usize, i32> {
        world::with(|w| w.srv_read(self.s, max)).map(|o| o.map(|v| v.len()).unwrap_or(0))
    }
    fn p_write(&mut self, n: usize) -> Result<usize, i32> {
        let buf = vec![b'y'; n];
        world::with(|w| w.client_send(self.conn, &buf))
    }
    fn p_read(&mut self, max: usize) -> Result<usize, i32> {
        world::with(|w| w.client_recv(self.conn, max)).map(|v| v.len())
    }
    fn s_shutdown(&mut self, how: How) {
        world::with(|w| {
            let _ = w.srv_shutdown(self.s, how);
        });
    }
    fn p_shutdown(&mut self, how: How) {
        world::with(|w| {
            let _ = w.client_shutdown(self.conn, how);
        });
    }
    fn p_close(&mut self) {
        world::with(|w| w.client_close(self.conn));
        self.p_open = false;
    }
    fn p_open(&self) -> bool {
        self.p_open
    }
    fn s_poll(&mut self, interest: u32) -> u32 {
        sim_poll_fd(self.s, interest)
    }
    fn p_poll(&mut self, interest: u32) -> u32 {
        world::with(|w| w.client_poll(self.conn)) & (interest | 0x008 | 0x010)
    }
    fn teardown(&mut self) {}
}

fn scenario(k: &mut dyn Kernel, via_listener: bool, pre: &[Act], acts: &[Act]) -> Vec<String> {
    k.pair(via_listener, pre);
    let mut v = Vec::new();
    for a in acts {
        v.push(format!("{:?}={}", a, apply(k, *a)));
    }
    v.extend(observe(k));
    k.teardown();
    v
}

pub struct ConfResult {
    pub scenarios: usize,
    pub mismatches: Vec<String>,
}

pub fn run() -> ConfResult {
    let dir = std::env::temp_dir().to_string_lossy().to_string();
    let mut real = Real { s: -1, p: -1, p_open: false, dir, n: 0 };
    let mut sim = Sim { s: -1, conn: 0, p_open: false };
    let mut scenarios = 0;
    let mut mismatches = Vec::new();
    let mut seqs: Vec<Vec<Act>> = vec![vec![]];
    for a in ALPHABET {
        seqs.push(vec![a]);
        for b in ALPHABET {
            seqs.push(vec![a, b]);
            for c in ALPHABET {
                seqs.push(vec![a, b, c]);
            }
        }
    }
    for acts in &seqs {
        let r = scenario(&mut real, false, &[], acts);
        let s = scenario(&mut sim, false, &[], acts);
        scenarios += 1;
        if r != s {
            mismatches.push(format!("pair {:?}:\n   real {:?}\n   sim  {:?}", acts, r, s));
        }
    }
    // embryo scenarios: the peer acts before accept()
    let pres: Vec<Vec<Act>> = vec![
        vec![],
        vec![Act::PClose],
        vec![Act::PSend],
        vec![Act::PSend, Act::PClose],
        vec![Act::PShutWr],
        vec![Act::PSend, Act::PShutWr],
        vec![Act::PShutRd],
        vec![Act::PSend, Act::PSend, Act::PClose],
    ];
    for pre in &pres {
        for acts in [vec![], vec![Act::SRead], vec![Act::SSend], vec![Act::PClose]] {
            let r = scenario(&mut real, true, pre, &acts);
            let s = scenario(&mut sim, true, pre, &acts);
            scenarios += 1;
            if r != s {
                mismatches.push(format!("listener pre={:?} {:?}:\n   real {:?}\n   sim  {:?}", pre, acts, r, s));
            }
        }
    }
    // descriptor numbers: lowest free number is re-used
    {
        // real
        // SAFETY: plain descriptor syscalls.
        let real_ok = unsafe {
            let a = libc::eventfd(0, 0);
            let b = libc::eventfd(0, 0);
            libc::close(a);
            let c = libc::eventfd(0, 0);
            let ok = c == a;
            libc::close(b);
            libc::close(c);
            ok
        };
        world::reset(Config::default());
        let sim_ok = world::with(|w| {
            let a = w.eventfd_create(true);
            let b = w.eventfd_create(true);
            w.close(a);
            let c = w.eventfd_create(true);
            let _ = b;
            c == a
        });
        scenarios += 1;
        if real_ok != sim_ok {
            mismatches.push(format!("fd reuse: real {} sim {}", real_ok, sim_ok));
        }
    }
    // eventfd + ready set + epoll_ctl errors
    {
        // SAFETY: plain descriptor syscalls with valid arguments.
        let real_v: Vec<String> = unsafe {
            let mut v = Vec::new();
            let ep = libc::epoll_create1(0);
            let e1 = libc::eventfd(0, libc::EFD_NONBLOCK);
            let e2 = libc::eventfd(0, libc::EFD_NONBLOCK);
            let mut ev = libc::epoll_event { events: IN | RDHUP, u64: 11 };
            v.push(format!("add={}", libc::epoll_ctl(ep, libc::EPOLL_CTL_ADD, e1, &mut ev)));
            v.push(format!("add-again={}", if libc::epoll_ctl(ep, libc::EPOLL_CTL_ADD, e1, &mut ev) < 0 { errno() } else { 0 }));
            v.push(format!("mod-missing={}", if libc::epoll_ctl(ep, libc::EPOLL_CTL_MOD, e2, &mut ev) < 0 { errno() } else { 0 }));
            v.push(format!("del-missing={}", if libc::epoll_ctl(ep, libc::EPOLL_CTL_DEL, e2, &mut ev) < 0 { errno() } else { 0 }));
            let mut ev2 = libc::epoll_event { events: IN, u64: 22 };
            libc::epoll_ctl(ep, libc::EPOLL_CTL_ADD, e2, &mut ev2);
            let mut out = [libc::epoll_event { events: 0, u64: 0 }; 8];
            v.push(format!("idle={}", libc::epoll_wait(ep, out.as_mut_ptr(), 8, 0)));
            let one: u64 = 1;
            libc::write(e2, &one as *const u64 as *const libc::c_void, 8);
            let n = libc::epoll_wait(ep, out.as_mut_ptr(), 8, 0);
            v.push(format!("after-write n={} data={} ev={:x}", n, { out[0].u64 }, { out[0].events }));
            libc::write(e1, &one as *const u64 as *const libc::c_void, 8);
            let n = libc::epoll_wait(ep, out.as_mut_ptr(), 8, 0);
            v.push(format!("both n={}", n));
            let mut val: u64 = 0;
            libc::read(e2, &mut val as *mut u64 as *mut libc::c_void, 8);
            v.push(format!("read={}", val));
            let r = libc::read(e2, &mut val as *mut u64 as *mut libc::c_void, 8);
            v.push(format!("read-again={}", if r < 0 { errno() } else { 0 }));
            let n = libc::epoll_wait(ep, out.as_mut_ptr(), 8, 0);
            v.push(format!("after-read n={} data={}", n, { out[0].u64 }));
            // closing a registered descriptor removes it from the interest list
            libc::close(e1);
            v.push(format!("after-close n={}", libc::epoll_wait(ep, out.as_mut_ptr(), 8, 0)));
            libc::close(e2);
            libc::close(ep);
            v
        };
        world::reset(Config::default());
        let sim_v: Vec<String> = world::with(|w| {
            let mut v = Vec::new();
            let ep = w.epoll_create();
            let e1 = w.eventfd_create(true);
            let e2 = w.eventfd_create(true);
            let code = |r: Result<(), i32>| match r {
                Ok(()) => 0,
                Err(e) => e,
            };
            v.push(format!("add={}", code(w.epoll_ctl(ep, 1, e1, IN | RDHUP, 11))));
            v.push(format!("add-again={}", code(w.epoll_ctl(ep, 1, e1, IN | RDHUP, 11))));
            v.push(format!("mod-missing={}", code(w.epoll_ctl(ep, 3, e2, IN, 22))));
            v.push(format!("del-missing={}", code(w.epoll_ctl(ep, 2, e2, IN, 22))));
            let _ = w.epoll_ctl(ep, 1, e2, IN, 22);
            v.push(format!("idle={}", w.epoll_wait(ep, 0, 8).unwrap().unwrap().len()));
            let _ = w.eventfd_write(e2, 1);
            let r = w.epoll_wait(ep, 0, 8).unwrap().unwrap();
            v.push(format!("after-write n={} data={} ev={:x}", r.len(), r[0].1, r[0].0));
            let _ = w.eventfd_write(e1, 1);
            v.push(format!("both n={}", w.epoll_wait(ep, 0, 8).unwrap().unwrap().len()));
            v.push(format!("read={}", w.eventfd_read(e2).unwrap().unwrap()));
            v.push(format!("read-again={}", w.eventfd_read(e2).err().unwrap_or(0)));
            let r = w.epoll_wait(ep, 0, 8).unwrap().unwrap();
            v.push(format!("after-read n={} data={}", r.len(), r[0].1));
            w.close(e1);
            v.push(format!("after-close n={}", w.epoll_wait(ep, 0, 8).unwrap().unwrap().len()));
            v
        });
        scenarios += 1;
        if real_v != sim_v {
            mismatches.push(format!("eventfd/epoll:\n   real {:?}\n   sim  {:?}", real_v, sim_v));
        }
    }
    // edge-triggered and one-shot registrations (a server that registers its kill switch or a
    // stream that way must be seen to lose events)
    {
        const ET: u32 = 1 << 31;
        const ONESHOT: u32 = 1 << 30;
        // SAFETY: plain descriptor syscalls with valid arguments.
        let real_v: Vec<String> = unsafe {
            let mut v = Vec::new();
            let ep = libc::epoll_create1(0);
            let e1 = libc::eventfd(0, libc::EFD_NONBLOCK);
            let e2 = libc::eventfd(0, libc::EFD_NONBLOCK);
            let mut ev = libc::epoll_event { events: IN | ET, u64: 1 };
            libc::epoll_ctl(ep, libc::EPOLL_CTL_ADD, e1, &mut ev);
            let mut ev2 = libc::epoll_event { events: IN | ONESHOT, u64: 2 };
            libc::epoll_ctl(ep, libc::EPOLL_CTL_ADD, e2, &mut ev2);
            let mut out = [libc::epoll_event { events: 0, u64: 0 }; 8];
            let one: u64 = 1;
            let w = |fd| libc::write(fd, &one as *const u64 as *const libc::c_void, 8);
            w(e1);
            v.push(format!("et first={}", libc::epoll_wait(ep, out.as_mut_ptr(), 8, 0)));
            v.push(format!("et again={}", libc::epoll_wait(ep, out.as_mut_ptr(), 8, 0)));
            w(e1);
            v.push(format!("et after second write={}", libc::epoll_wait(ep, out.as_mut_ptr(), 8, 0)));
            v.push(format!("et again={}", libc::epoll_wait(ep, out.as_mut_ptr(), 8, 0)));
            w(e2);
            v.push(format!("oneshot first={}", libc::epoll_wait(ep, out.as_mut_ptr(), 8, 0)));
            w(e2);
            v.push(format!("oneshot after second write={}", libc::epoll_wait(ep, out.as_mut_ptr(), 8, 0)));
            libc::epoll_ctl(ep, libc::EPOLL_CTL_MOD, e2, &mut ev2);
            v.push(format!("oneshot re-armed={}", libc::epoll_wait(ep, out.as_mut_ptr(), 8, 0)));
            libc::epoll_ctl(ep, libc::EPOLL_CTL_MOD, e1, &mut ev);
            v.push(format!("et re-armed by mod={}", libc::epoll_wait(ep, out.as_mut_ptr(), 8, 0)));
            libc::close(e1);
            libc::close(e2);
            libc::close(ep);
            v
        };
        world::reset(Config::default());
        let sim_v: Vec<String> = world::with(|w| {
            let mut v = Vec::new();
            let ep = w.epoll_create();
            let e1 = w.eventfd_create(true);
            let e2 = w.eventfd_create(true);
            let _ = w.epoll_ctl(ep, 1, e1, IN | ET, 1);
            let _ = w.epoll_ctl(ep, 1, e2, IN | ONESHOT, 2);
            let n = |w: &mut world::World| w.epoll_wait(ep, 0, 8).unwrap().unwrap().len();
            let _ = w.eventfd_write(e1, 1);
            v.push(format!("et first={}", n(w)));
            v.push(format!("et again={}", n(w)));
            let _ = w.eventfd_write(e1, 1);
            v.push(format!("et after second write={}", n(w)));
            v.push(format!("et again={}", n(w)));
            let _ = w.eventfd_write(e2, 1);
            v.push(format!("oneshot first={}", n(w)));
            let _ = w.eventfd_write(e2, 1);
            v.push(format!("oneshot after second write={}", n(w)));
            let _ = w.epoll_ctl(ep, 3, e2, IN | ONESHOT, 2);
            v.push(format!("oneshot re-armed={}", n(w)));
            let _ = w.epoll_ctl(ep, 3, e1, IN | ET, 1);
            v.push(format!("et re-armed by mod={}", n(w)));
            v
        });
        scenarios += 1;
        if real_v != sim_v {
            mismatches.push(format!("EPOLLET/EPOLLONESHOT:\n   real {:?}\n   sim  {:?}", real_v, sim_v));
        }
    }
    // a descriptor inherited by a forked child (here: dup, the same thing to the kernel): closing
    // the original neither hangs up the connection nor removes the epoll registration made through
    // it; the registration keeps reporting with the data given at registration and can no longer be
    // removed by number; it disappears when the last reference goes
    {
        // SAFETY: plain descriptor syscalls with valid arguments.
        let real_v: Vec<String> = unsafe {
            let mut v = Vec::new();
            let mut sp = [0i32; 2];
            libc::socketpair(libc::AF_UNIX, libc::SOCK_STREAM | libc::SOCK_NONBLOCK, 0, sp.as_mut_ptr());
            let (sfd, pfd) = (sp[0], sp[1]);
            let ep = libc::epoll_create1(0);
            let mut ev = libc::epoll_event { events: IN | RDHUP, u64: 77 };
            libc::epoll_ctl(ep, libc::EPOLL_CTL_ADD, sfd, &mut ev);
            let child = libc::dup(sfd);
            libc::close(sfd);
            let mut out = [libc::epoll_event { events: 0, u64: 0 }; 8];
            let mut wait = |v: &mut Vec<String>, what: &str| {
                let n = libc::epoll_wait(ep, out.as_mut_ptr(), 8, 0);
                let (e0, d0) = (out[0].events, out[0].u64);
                v.push(if n > 0 { format!("{}: n={} ev={:x} data={}", what, n, e0, d0) } else { format!("{}: n={}", what, n) });
            };
            wait(&mut v, "after close");
            let b = [1u8; 3];
            libc::write(pfd, b.as_ptr() as *const libc::c_void, 3);
            wait(&mut v, "peer wrote");
            let r = libc::epoll_ctl(ep, libc::EPOLL_CTL_DEL, sfd, std::ptr::null_mut());
            v.push(format!("del by closed number: {} errno {}", r, if r < 0 { errno() } else { 0 }));
            v.push(format!("peer still connected: poll={:x}", real_poll(pfd, IN | OUT | RDHUP)));
            libc::close(pfd);
            wait(&mut v, "peer closed");
            libc::close(child);
            wait(&mut v, "last reference closed");
            libc::close(ep);
            v
        };
        world::reset(Config::default());
        let sim_v: Vec<String> = world::with(|w| {
            let mut v = Vec::new();
            let l = w.bind("/sim/f.sock").unwrap();
            let conn = w.client_connect("/sim/f.sock").unwrap();
            let sfd = w.accept(l).unwrap().unwrap();
            let _ = w.set_nonblocking(sfd, true);
            let ep = w.epoll_create();
            let _ = w.epoll_ctl(ep, 1, sfd, IN | RDHUP, 77);
            w.fork_inherit();
            w.close(sfd);
            let wait = |w: &mut world::World, v: &mut Vec<String>, what: &str| {
                let r = w.epoll_wait(ep, 0, 8).unwrap().unwrap();
                v.push(if !r.is_empty() { format!("{}: n={} ev={:x} data={}", what, r.len(), r[0].0, r[0].1) } else { format!("{}: n=0", what) });
            };
            wait(w, &mut v, "after close");
            let _ = w.client_send(conn, &[1u8; 3]);
            wait(w, &mut v, "peer wrote");
            let r = w.epoll_ctl(ep, 2, sfd, 0, 0);
            v.push(format!("del by closed number: {} errno {}", if r.is_ok() { 0 } else { -1 }, r.err().unwrap_or(0)));
            v.push(format!("peer still connected: poll={:x}", w.client_poll(conn) & (IN | OUT | RDHUP | 0x10 | 0x8)));
            w.client_close(conn);
            wait(w, &mut v, "peer closed");
            w.child_exit();
            wait(w, &mut v, "last reference closed");
            v
        });
        scenarios += 1;
        if real_v != sim_v {
            mismatches.push(format!("inherited descriptor / epoll registration after close:\n   real {:?}\n   sim  {:?}", real_v, sim_v));
        }
    }
    // the listener becomes readable with a pending connection; the server's fd table
    {
        world::reset(Config::default());
        let ok = world::with(|w| {
            let l = w.bind("/sim/x.sock").unwrap();
            let ep = w.epoll_create();
            let _ = w.epoll_ctl(ep, 1, l, IN | RDHUP, l as u64);
            let idle = w.epoll_wait(ep, 0, 8).unwrap().unwrap().len();
            let _c = w.client_connect("/sim/x.sock").unwrap();
            let r = w.epoll_wait(ep, 0, 8).unwrap().unwrap();
            let fds = w.server_fds();
            idle == 0 && r.len() == 1 && r[0].0 == IN && fds.len() == 2 && matches!(fds[0].1, FdObj::Listener(_))
        });
        scenarios += 1;
        if !ok {
            mismatches.push("listener readiness in the stub is wrong".into());
        }
    }
    ConfResult { scenarios, mismatches }
}

pub fn to_json(r: &ConfResult) -> J {
    json::obj(vec![
        ("scenarios", json::u(r.scenarios)),
        ("mismatches", json::u(r.mismatches.len())),
        ("against", json::s("real AF_UNIX stream sockets / epoll / eventfd of the running kernel, through libc")),
    ])
}

pub fn show_one() {
    let dir = std::env::temp_dir().to_string_lossy().to_string();
    let mut real = Real { s: -1, p: -1, p_open: false, dir, n: 0 };
    let mut sim = Sim { s: -1, conn: 0, p_open: false };
    for acts in [vec![Act::PSend, Act::SSend, Act::PClose], vec![Act::PShutRd], vec![Act::SSend, Act::PShutWr]] {
        println!("{:?}\n real {:?}\n sim  {:?}", acts, scenario(&mut real, false, &[], &acts), scenario(&mut sim, false, &[], &acts));
    }
    let pre = vec![Act::PSend, Act::PClose];
    println!("embryo {:?}\n real {:?}\n sim  {:?}", pre, scenario(&mut real, true, &pre, &[]), scenario(&mut sim, true, &pre, &[]));
}
