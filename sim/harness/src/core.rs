//! Shared vocabulary: violations, per-run outcome, statistics, the property interface.

use std::collections::{BTreeMap, HashSet};

use crate::json::{self, J};
use crate::rng::Rng;

#[derive(Clone, Debug, PartialEq, Eq)]
pub struct Violation {
    /// stable, coarse class used for minimisation ("same violation class") and for the
    /// known-findings signature
    pub class: String,
    /// index of the step (harness action) at which it was detected
    pub step: usize,
    pub detail: String,
}

impl Violation {
    pub fn new(class: &str, step: usize, detail: String) -> Self {
        // details quote observed values; a megabyte body must not end up in a replay file
        let detail = if detail.len() > 3000 {
            let mut cut = 3000;
            while !detail.is_char_boundary(cut) {
                cut -= 1;
            }
            format!("{} ... [{} more bytes]", &detail[..cut], detail.len() - cut)
        } else {
            detail
        };
        Violation { class: class.to_string(), step, detail }
    }
    pub fn to_json(&self) -> J {
        json::obj(vec![
            ("class", json::s(&self.class)),
            ("step", json::u(self.step)),
            ("detail", json::s(&self.detail)),
        ])
    }
}

#[derive(Clone, Copy, Debug, PartialEq, Eq)]
pub enum Tier {
    Quick,
    Thorough,
}

#[derive(Clone, Debug, Default)]
pub struct Stats {
    pub probes: BTreeMap<&'static str, u64>,
    pub faults: BTreeMap<&'static str, u64>,
    pub steps: u64,
    pub skipped_unspecified: u64,
    pub lib_calls: u64,
    /// distinct abstract states visited (hashes); a set used for counting only
    pub states: HashSet<u64>,
}

impl Stats {
    pub fn probe(&mut self, k: &'static str) {
        *self.probes.entry(k).or_insert(0) += 1;
    }
    pub fn probe_n(&mut self, k: &'static str, n: u64) {
        *self.probes.entry(k).or_insert(0) += n;
    }
    pub fn state(&mut self, h: u64) {
        if self.states.len() < 4_000_000 {
            self.states.insert(h);
        }
    }
    pub fn fault(&mut self, k: &'static str) {
        *self.faults.entry(k).or_insert(0) += 1;
    }
    pub fn merge(&mut self, o: &Stats) {
        for (k, v) in &o.probes {
            *self.probes.entry(k).or_insert(0) += v;
        }
        for (k, v) in &o.faults {
            *self.faults.entry(k).or_insert(0) += v;
        }
        self.steps += o.steps;
        self.skipped_unspecified += o.skipped_unspecified;
        self.lib_calls += o.lib_calls;
        for h in &o.states {
            if self.states.len() < 16_000_000 {
                self.states.insert(*h);
            }
        }
    }
}

#[derive(Clone, Debug)]
pub struct RunOut {
    pub violation: Option<Violation>,
    pub nontrivial: bool,
    /// trace signature: hash of (action kind, outcome class observed at the seam)*
    pub sig: u64,
    /// canonical hash of everything observed (for the determinism self-test)
    pub trace_hash: u64,
}

pub trait Prop: Sync + Send {
    fn id(&self) -> &'static str;
    /// how many runs the tier does by default
    fn runs(&self, tier: Tier) -> u64;
    /// generate the explicit case (schedule + faults + inputs) for one run
    fn gen_inner(&self, rng: &mut Rng, tier: Tier, index: u64) -> J;
    /// execute an explicit case; pure function of the case and the code under test
    fn exec_inner(&self, case: &J, st: &mut Stats) -> Result<RunOut, String>;
    /// `gen_inner` under the simulated clock (server-level generators drive the real server)
    fn gen(&self, rng: &mut Rng, tier: Tier, index: u64) -> J {
        let _clock = simkernel::rawsys::clock::enter();
        self.gen_inner(rng, tier, index)
    }
    /// `exec_inner` under the simulated clock: every clock the code under test reads during the run
    /// starts at a fixed epoch and moves only as the explicit case says
    fn exec(&self, case: &J, st: &mut Stats) -> Result<RunOut, String> {
        let _clock = simkernel::rawsys::clock::enter();
        let r = self.exec_inner(case, st);
        let secs = simkernel::rawsys::clock::elapsed_ns() / 1_000_000_000;
        if secs > 0 {
            // simulated time covered by the runs (beyond the logical steps): seconds of the virtual clock
            st.probe_n("simulated_clock_seconds_elapsed", secs);
        }
        let reads = simkernel::rawsys::clock::reads();
        if reads > 0 {
            st.probe_n("clock_read_during_run", reads);
        }
        r
    }
    /// smaller variants of a case, most aggressive first
    fn shrink(&self, case: &J) -> Vec<J>;
    fn rule(&self) -> &'static str;
    fn components(&self) -> (Vec<&'static str>, Vec<&'static str>);
    /// extra deterministic families (systematic sweeps) run in the thorough tier:
    /// returns the number of sweep cases for a given base index
    fn sweep_cases(&self, _rng: &mut Rng, _tier: Tier, _index: u64) -> Vec<J> {
        Vec::new()
    }
    fn needs_conformance(&self) -> bool {
        false
    }
}

/// removal candidates for a sequence of length n: (start, end) ranges, big chunks first
pub fn removal_ranges(n: usize, max_candidates: usize) -> Vec<(usize, usize)> {
    let mut v = Vec::new();
    if n == 0 {
        return v;
    }
    let mut size = n;
    while size >= 1 {
        let mut start = 0;
        while start < n {
            let end = (start + size).min(n);
            if !(start == 0 && end == n && n > 1) || size == n {
                v.push((start, end));
            }
            start += size;
            if v.len() >= max_candidates {
                return v;
            }
        }
        if size == 1 {
            break;
        }
        size = (size + 1) / 2;
    }
    v
}
