//! Crashes of the process (stack overflow, abort, segmentation fault inside the code under test)
//! cannot be caught by `catch_unwind`. A signal handler reports which runs were in flight and ends
//! the process with exit code 70; `./check` then re-executes those runs one by one in child
//! processes, finds the one that crashes alone, and reports it as a violation (class `<prop>:abort`)
//! with a replay that regenerates the case from (seed, index).

use std::sync::atomic::{AtomicU64, Ordering};

#[allow(clippy::declare_interior_mutable_const)]
const ZERO: AtomicU64 = AtomicU64::new(0);
/// run index + 1 that each worker slot is executing (0 = none)
pub static CUR: [AtomicU64; 256] = [ZERO; 256];

pub const CRASH_EXIT: i32 = 70;

pub fn enter(slot: usize, index: u64) {
    CUR[slot.min(255)].store(index + 1, Ordering::Relaxed);
}
pub fn leave(slot: usize) {
    CUR[slot.min(255)].store(0, Ordering::Relaxed);
}

#[cfg(not(miri))]
extern "C" fn on_crash(sig: libc::c_int) {
    // async-signal-safe only: format by hand, write(2), _exit(2)
    let mut buf = [0u8; 4096];
    let mut n = 0usize;
    let mut push = |bytes: &[u8], buf: &mut [u8; 4096], n: &mut usize| {
        for &b in bytes {
            if *n < buf.len() {
                buf[*n] = b;
                *n += 1;
            }
        }
    };
    fn num(mut v: u64, out: &mut [u8; 24]) -> usize {
        let mut tmp = [0u8; 24];
        let mut k = 0;
        if v == 0 {
            tmp[0] = b'0';
            k = 1;
        }
        while v > 0 {
            tmp[k] = b'0' + (v % 10) as u8;
            v /= 10;
            k += 1;
        }
        for i in 0..k {
            out[i] = tmp[k - 1 - i];
        }
        k
    }
    push(b"\nCRASH signal=", &mut buf, &mut n);
    let mut d = [0u8; 24];
    let k = num(sig as u64, &mut d);
    push(&d[..k], &mut buf, &mut n);
    push(b" inflight=", &mut buf, &mut n);
    for slot in CUR.iter() {
        let v = slot.load(Ordering::Relaxed);
        if v != 0 {
            let k = num(v - 1, &mut d);
            push(&d[..k], &mut buf, &mut n);
            push(b",", &mut buf, &mut n);
        }
    }
    push(b"\n", &mut buf, &mut n);
    // SAFETY: write and _exit are async-signal-safe; the buffer is on this (alternate) stack.
    unsafe {
        libc::write(1, buf.as_ptr() as *const libc::c_void, n);
        libc::_exit(CRASH_EXIT);
    }
}

/// Install the handler (on the alternate signal stack that std sets up for every thread).
pub fn install() {
    #[cfg(not(miri))]
    // SAFETY: plain sigaction with a handler that only uses async-signal-safe calls.
    unsafe {
        for sig in [libc::SIGSEGV, libc::SIGBUS, libc::SIGABRT, libc::SIGILL, libc::SIGFPE] {
            let mut sa: libc::sigaction = std::mem::zeroed();
            sa.sa_sigaction = on_crash as *const () as usize;
            sa.sa_flags = libc::SA_ONSTACK;
            libc::sigemptyset(&mut sa.sa_mask);
            libc::sigaction(sig, &sa, std::ptr::null_mut());
        }
    }
}
