//! Engine A, read side: HttpConnection<SimStream> driven by explicit read schedules.
//! Real code: connection.rs, request.rs, headers.rs, response.rs. Stub: the stream.

use crate::core::{removal_ranges, Stats, Violation};
use crate::gen::SOp;
use crate::json::{self, J};
use crate::model::{read_responses, MEvent, ModelOut, ReqObs, EK, WINDOW};
use crate::obs::{matches_model, CallRes, Conn};
use crate::rng::Sig;
use crate::simstream::RdOp;

pub const MAX_READS: usize = 8000;

// ---------------------------------------------------------------- case (de)serialisation

pub fn sops_to_json(ops: &[SOp]) -> J {
    J::Arr(
        ops.iter()
            .map(|o| match o {
                SOp::Cut(p) => J::Arr(vec![json::s("cut"), json::u(*p)]),
                SOp::Chunk(n) => J::Arr(vec![json::s("chunk"), if *n == usize::MAX { json::i(-1) } else { json::u(*n) }]),
                SOp::Rep(n, c) => J::Arr(vec![json::s("rep"), json::u(*n), json::u(*c)]),
                SOp::Eagain => J::Arr(vec![json::s("eagain")]),
                SOp::Eintr => J::Arr(vec![json::s("eintr")]),
            })
            .collect(),
    )
}

pub fn sops_from_json(j: &J) -> Result<Vec<SOp>, String> {
    let a = j.arr().ok_or("schedule not an array")?;
    let mut v = Vec::new();
    for e in a {
        let e = e.arr().ok_or("op not an array")?;
        let k = e.first().and_then(|x| x.str()).ok_or("op kind")?;
        let num = |i: usize| -> Result<usize, String> {
            let x = e.get(i).and_then(|x| x.int()).ok_or("op arg")?;
            Ok(if x < 0 { usize::MAX } else { x as usize })
        };
        v.push(match k {
            "cut" => SOp::Cut(num(1)?),
            "chunk" => SOp::Chunk(num(1)?),
            "rep" => SOp::Rep(num(1)?, num(2)?),
            "eagain" => SOp::Eagain,
            "eintr" => SOp::Eintr,
            _ => return Err(format!("unknown op {}", k)),
        });
    }
    Ok(v)
}

#[derive(Clone, Debug)]
pub struct ConnCase {
    /// payload limit; None = the connection's default
    pub limit: Option<usize>,
    pub stream: Vec<u8>,
    pub scheds: Vec<Vec<SOp>>,
    /// finish each schedule with an EOF read
    pub eof: bool,
    /// C14: caller's maximum for the one-shot parser
    pub oneshot_max: Option<usize>,
    /// C12: descriptors attached to the i-th data-delivering read
    pub fd_plan: Vec<u16>,
    pub eof_fds: u16,
    /// C12: when to drop popped requests: 0 = at the end, 1 = immediately
    pub drop_mode: u8,
    /// C12: hand descriptor number 0 to the library in this run (exclusive use of the descriptor table)
    pub use_fd0: bool,
    /// C12: stub-free run over a real socketpair with SCM_RIGHTS (vmm-sys-util's recvmsg path)
    pub real_socket: bool,
    /// C04: (offset, new limit), ascending offsets: the owner calls set_payload_max_size(new limit)
    /// when exactly `offset` bytes have been delivered (every schedule is cut there)
    pub relimit: Vec<(usize, usize)>,
    /// C12: low descriptor numbers are occupied at the start and freed after the first read that
    /// carried descriptors, so later descriptors have LOWER numbers than earlier ones (arrival
    /// order is not numeric order); such a run holds the descriptor table exclusively
    pub low_fd_later: bool,
}

impl ConnCase {
    pub fn new(limit: Option<usize>, stream: Vec<u8>, scheds: Vec<Vec<SOp>>) -> Self {
        ConnCase {
            limit,
            stream,
            scheds,
            eof: true,
            oneshot_max: None,
            fd_plan: vec![],
            eof_fds: 0,
            drop_mode: 0,
            use_fd0: false,
            real_socket: false,
            relimit: vec![],
            low_fd_later: false,
        }
    }
    pub fn eff_limit(&self) -> usize {
        self.limit.unwrap_or(51200)
    }
    /// the limit in force when a header block ending at offset `e` completes: the byte e-1 is
    /// delivered by a read that starts after every change at an offset < e
    pub fn limit_at(&self, e: usize) -> usize {
        let mut l = self.eff_limit();
        for &(p, nl) in &self.relimit {
            if p < e {
                l = nl;
            }
        }
        l
    }
    pub fn max_limit(&self) -> usize {
        self.relimit.iter().map(|x| x.1).fold(self.eff_limit(), |a, b| a.max(b))
    }
    pub fn model(&self) -> ModelOut {
        crate::model::model_stream_lim(&self.stream, &|e| self.limit_at(e), WINDOW)
    }
    pub fn to_json(&self) -> J {
        json::obj(vec![
            ("engine", json::s("A-read")),
            ("limit", match self.limit {
                Some(l) => json::u(l),
                None => J::Null,
            }),
            // a stream that ends in a long run of the fill pattern (mega bodies) is stored as
            // head + pattern length instead of megabytes of hex
            ("stream", match fill_split(&self.stream) {
                Some((head, n)) => J::Arr(vec![json::s("fill"), json::hex(&self.stream[..head]), json::u(n), json::u(7)]),
                None => json::hex(&self.stream),
            }),
            ("stream_text", json::s(&json::show(&self.stream))),
            ("scheds", J::Arr(self.scheds.iter().map(|s| sops_to_json(s)).collect())),
            ("eof", J::Bool(self.eof)),
            ("oneshot_max", match self.oneshot_max {
                Some(l) => json::u(l),
                None => J::Null,
            }),
            ("fd_plan", J::Arr(self.fd_plan.iter().map(|x| json::u(*x as usize)).collect())),
            ("eof_fds", json::u(self.eof_fds as usize)),
            ("drop_mode", json::u(self.drop_mode as usize)),
            ("use_fd0", J::Bool(self.use_fd0)),
            ("real_socket", J::Bool(self.real_socket)),
            ("relimit", J::Arr(self.relimit.iter().map(|(p, l)| J::Arr(vec![json::u(*p), json::u(*l)])).collect())),
            ("low_fd_later", J::Bool(self.low_fd_later)),
        ])
    }
    pub fn from_json(j: &J) -> Result<Self, String> {
        let mut scheds = Vec::new();
        for s in j.req_arr("scheds")? {
            scheds.push(sops_from_json(s)?);
        }
        Ok(ConnCase {
            limit: j.get("limit").and_then(|x| x.usize()),
            stream: match j.get("stream").and_then(|x| x.arr()) {
                Some(a) => {
                    let mut v = a.get(1).and_then(|x| x.bytes()).ok_or("fill head")?;
                    let n = a.get(2).and_then(|x| x.usize()).ok_or("fill len")?;
                    let k = a.get(3).and_then(|x| x.usize()).unwrap_or(7) as u8;
                    v.extend(crate::props_w::fill_body(n, k));
                    v
                }
                None => j.req_hex("stream")?,
            },
            scheds,
            eof: j.get("eof").and_then(|x| x.bool()).unwrap_or(true),
            oneshot_max: j.get("oneshot_max").and_then(|x| x.usize()),
            fd_plan: j
                .get("fd_plan")
                .and_then(|x| x.arr())
                .map(|a| a.iter().map(|x| x.usize().unwrap_or(0) as u16).collect())
                .unwrap_or_default(),
            eof_fds: j.get("eof_fds").and_then(|x| x.usize()).unwrap_or(0) as u16,
            drop_mode: j.get("drop_mode").and_then(|x| x.usize()).unwrap_or(0) as u8,
            use_fd0: j.get("use_fd0").and_then(|x| x.bool()).unwrap_or(false),
            real_socket: j.get("real_socket").and_then(|x| x.bool()).unwrap_or(false),
            relimit: j
                .get("relimit")
                .and_then(|x| x.arr())
                .map(|a| {
                    a.iter()
                        .filter_map(|e| {
                            let e = e.arr()?;
                            Some((e.first()?.usize()?, e.get(1)?.usize()?))
                        })
                        .collect()
                })
                .unwrap_or_default(),
            low_fd_later: j.get("low_fd_later").and_then(|x| x.bool()).unwrap_or(false),
        })
    }

    /// generic shrink candidates
    pub fn shrink(&self, min_scheds: usize) -> Vec<ConnCase> {
        let mut out = Vec::new();
        // fewer schedules
        if self.scheds.len() > min_scheds {
            for k in 0..self.scheds.len() {
                let mut c = self.clone();
                c.scheds.remove(k);
                out.push(c);
            }
        }
        // shorter stream (chunks removed); cut positions after the removed range shift left
        for (a, b) in removal_ranges(self.stream.len(), 40) {
            let mut c = self.clone();
            c.stream.drain(a..b);
            for r in c.relimit.iter_mut() {
                if r.0 >= b {
                    r.0 -= b - a;
                } else if r.0 > a {
                    r.0 = a;
                }
            }
            for s in c.scheds.iter_mut() {
                for op in s.iter_mut() {
                    if let SOp::Cut(p) = op {
                        if *p >= b {
                            *p -= b - a;
                        } else if *p > a {
                            *p = a;
                        }
                    }
                }
            }
            out.push(c);
        }
        // fewer ops in each schedule
        for k in 0..self.scheds.len() {
            for (a, b) in removal_ranges(self.scheds[k].len(), 24) {
                let mut c = self.clone();
                c.scheds[k].drain(a..b);
                out.push(c);
            }
            // simplify ops
            for i in 0..self.scheds[k].len() {
                match self.scheds[k][i] {
                    SOp::Rep(n, cnt) if cnt > 1 => {
                        let mut c = self.clone();
                        c.scheds[k][i] = SOp::Rep(n, cnt / 2);
                        out.push(c);
                    }
                    _ => {}
                }
            }
        }
        if !self.fd_plan.is_empty() {
            for (a, b) in removal_ranges(self.fd_plan.len(), 12) {
                let mut c = self.clone();
                c.fd_plan.drain(a..b);
                out.push(c);
            }
            for i in 0..self.fd_plan.len() {
                if self.fd_plan[i] > 0 {
                    let mut c = self.clone();
                    c.fd_plan[i] = self.fd_plan[i] / 2;
                    out.push(c);
                }
            }
        }
        if self.eof_fds > 0 {
            let mut c = self.clone();
            c.eof_fds = 0;
            out.push(c);
        }
        // printable filler: replace runs of body-ish bytes is not attempted; replace single
        // non-ASCII bytes by 'a' (keeps lengths and structure)
        let nonascii: Vec<usize> = self.stream.iter().enumerate().filter(|(_, b)| **b >= 0x80 || **b == 0).map(|(i, _)| i).collect();
        if !nonascii.is_empty() && nonascii.len() <= 64 {
            let mut c = self.clone();
            for i in &nonascii {
                c.stream[*i] = b'a';
            }
            out.push(c);
        }
        if self.eof {
            let mut c = self.clone();
            c.eof = false;
            out.push(c);
        }
        if self.use_fd0 {
            let mut c = self.clone();
            c.use_fd0 = false;
            out.push(c);
        }
        if self.real_socket {
            let mut c = self.clone();
            c.real_socket = false;
            out.push(c);
        }
        out
    }
}

// ------------------------------------------------------------------- schedule cursor

pub struct SchedCursor<'a> {
    ops: &'a [SOp],
    idx: usize,
    rep_left: usize,
    /// number of data-delivering reads so far
    pub data_reads: usize,
    pub reads: usize,
}

impl<'a> SchedCursor<'a> {
    pub fn new(ops: &'a [SOp]) -> Self {
        SchedCursor { ops, idx: 0, rep_left: 0, data_reads: 0, reads: 0 }
    }
    /// next receive behaviour, given how much of the input has been delivered
    pub fn next(&mut self, pos: usize, len: usize) -> Option<RdOp> {
        loop {
            // past the cap on scripted reads: finish greedily
            if self.idx >= self.ops.len() || self.reads >= MAX_READS {
                if pos < len {
                    self.reads += 1;
                    return Some(RdOp::Data(usize::MAX, 0));
                }
                return None;
            }
            match self.ops[self.idx] {
                SOp::Cut(p) => {
                    if pos < p && pos < len {
                        self.reads += 1;
                        return Some(RdOp::Data(p - pos, 0));
                    }
                    self.idx += 1;
                }
                SOp::Chunk(n) => {
                    self.idx += 1;
                    if pos < len && n > 0 {
                        self.reads += 1;
                        return Some(RdOp::Data(n, 0));
                    }
                }
                SOp::Rep(n, c) => {
                    if self.rep_left == 0 {
                        self.rep_left = c + 1;
                    }
                    self.rep_left -= 1;
                    if self.rep_left == 0 || pos >= len || n == 0 {
                        self.rep_left = 0;
                        self.idx += 1;
                        continue;
                    }
                    self.reads += 1;
                    return Some(RdOp::Data(n, 0));
                }
                SOp::Eagain => {
                    self.idx += 1;
                    self.reads += 1;
                    return Some(RdOp::Eagain);
                }
                SOp::Eintr => {
                    self.idx += 1;
                    self.reads += 1;
                    return Some(RdOp::Eintr);
                }
            }
        }
    }
}

// ------------------------------------------------------------------- structure classes

pub struct Structure<'a> {
    pub m: &'a ModelOut,
}

impl<'a> Structure<'a> {
    /// class of a cut position: which grammar element it falls in
    pub fn class(&self, pos: usize) -> u64 {
        let m = self.m;
        if m.request_ends.binary_search(&pos).is_ok() {
            return 0;
        }
        if m.header_ends.binary_search(&pos).is_ok() {
            return 1;
        }
        if m.line_ends.binary_search(&pos).is_ok() {
            return 2;
        }
        if m.line_ends.binary_search(&(pos + 1)).is_ok() {
            return 3; // between CR and LF
        }
        // inside a body? after a header end and before the matching request end
        let h = match m.header_ends.binary_search(&pos) {
            Ok(i) => i + 1,
            Err(i) => i,
        };
        let r = match m.request_ends.binary_search(&pos) {
            Ok(i) => i + 1,
            Err(i) => i,
        };
        if h > r {
            return 5;
        }
        let last = m.events.last().map(|e| e.0).unwrap_or(0);
        if pos > last && matches!(m.events.last(), Some((_, MEvent::Error(_)))) {
            return 6;
        }
        4
    }
}

fn probes_after_read(st: &mut Stats, conn: &Conn, stream: &[u8], m: &ModelOut, prev: usize, pos: usize, npopped: usize) {
    let sh = conn.sh.borrow();
    if sh.last_given == 0 {
        return;
    }
    let cursor_before = WINDOW.saturating_sub(sh.last_offer);
    let end_cursor = cursor_before + sh.last_given;
    if cursor_before > 0 {
        st.probe("carry_over_partial_line");
    }
    if end_cursor == WINDOW {
        st.probe("window_full");
        if m.line_ends.binary_search(&pos).is_ok() {
            st.probe("line_end_at_window_end");
        }
        if pos < stream.len() && stream[pos - 1] == b'\r' && stream[pos] == b'\n' {
            st.probe("cr_at_window_end_lf_next");
        }
    }
    if pos < stream.len() && stream[pos - 1] == b'\r' && stream[pos] == b'\n' && m.line_ends.binary_search(&(pos + 1)).is_ok() {
        st.probe("cr_lf_split");
    }
    if m.header_ends.binary_search(&(pos + 2)).is_ok() && m.line_ends.binary_search(&pos).is_ok() {
        st.probe("crlf_crlf_split");
    }
    if m.header_ends.binary_search(&pos).is_ok() {
        st.probe("cut_at_header_end");
    }
    // a request ended strictly inside this read
    let i = match m.request_ends.binary_search(&(prev + 1)) {
        Ok(i) => i,
        Err(i) => i,
    };
    if i < m.request_ends.len() && m.request_ends[i] < pos {
        st.probe("request_end_mid_read");
    }
    if npopped >= 2 {
        st.probe("two_requests_one_read");
    }
}


fn abstract_conn_state(st: &mut Stats, conn: &Conn, class: u64, res_code: u64, popped: usize) {
    let sh = conn.sh.borrow();
    let before = WINDOW.saturating_sub(sh.last_offer);
    let b = |x: usize| -> u64 {
        if x <= 1 {
            x as u64
        } else if x >= WINDOW - 1 {
            5
        } else if x == WINDOW - 2 {
            4
        } else if x == WINDOW - 3 {
            3
        } else {
            2
        }
    };
    let g = |x: usize| -> u64 {
        match x {
            0 => 0,
            1 => 1,
            2..=15 => 2,
            _ if x >= WINDOW => 4,
            _ => 3,
        }
    };
    let mut h = crate::rng::Sig::new();
    h.u(class);
    h.u(b(before));
    h.u(g(sh.last_given));
    h.u(res_code);
    h.u(popped.min(2) as u64);
    drop(sh);
    h.u(conn.c.pending_write() as u64);
    st.state(h.get());
}

// ------------------------------------------------------------------- plain driver (C01)

#[derive(Clone, Debug, PartialEq, Eq)]
pub struct PlainObs {
    pub reqs: Vec<ReqObs>,
    pub err: Option<EK>,
    pub closed: bool,
    pub other: Option<String>,
}

pub struct PlainInfo {
    pub obs: PlainObs,
    pub data_reads: usize,
    pub reads: usize,
    pub sig: Sig,
}

/// Run one schedule, model-free: collect what the connection delivers up to the first
/// parse error.
pub fn run_plain(case: &ConnCase, sched: &[SOp], m: &ModelOut, st: &mut Stats) -> PlainInfo {
    run_plain_mode(case, sched, m, st, 0)
}

/// `mode` varies what the owner of the connection does BETWEEN reads (none of which may
/// influence what is delivered): bit 0 = write pending output (interim responses) after every
/// read; bit 1 = pop parsed requests only at the very end; mode 3 additionally answers every
/// popped request... (with bit 1 set nothing is popped before the end, so mode 3 = drain + late pop).
/// Mode 5 = pop each read, enqueue a response per request and push it out with short writes.
/// Bit 4 = at most one request is popped per read (the rest stay queued across further reads).
/// Bit 3 = the output side is lost between reads (clear_write_buffer(), or a write the stream refuses).
pub fn run_plain_mode(case: &ConnCase, sched: &[SOp], m: &ModelOut, st: &mut Stats, mode: u8) -> PlainInfo {
    let drain_each = mode & 1 == 1;
    let pop_late = mode & 2 == 2;
    let answer = mode & 4 == 4;
    let output_lost = mode & 8 == 8;
    let pop_one = mode & 16 == 16;
    let mut conn = Conn::new(case.stream.clone(), case.limit);
    let len = case.stream.len();
    let mut cur = SchedCursor::new(sched);
    let mut obs = PlainObs { reqs: vec![], err: None, closed: false, other: None };
    let mut sig = Sig::new();
    let structure = Structure { m };
    let mut data_reads = 0;
    loop {
        let pos0 = conn.pos();
        let op = match cur.next(pos0, len) {
            Some(op) => op,
            None => break,
        };
        let empty = !matches!(op, RdOp::Data(_, _));
        let res = conn.try_read(op);
        st.lib_calls += 1;
        st.steps += 1;
        let popped = if pop_late {
            Vec::new()
        } else if pop_one {
            conn.pop_one()
        } else {
            conn.pop_all()
        };
        let pos = conn.pos();
        if !empty {
            data_reads += 1;
            probes_after_read(st, &conn, &case.stream, m, pos0, pos, popped.len());
        }
        sig.u(structure.class(pos));
        sig.u(res.code());
        sig.u(popped.len() as u64);
        abstract_conn_state(st, &conn, structure.class(pos), res.code(), popped.len());
        if answer {
            for _ in 0..popped.len() {
                let (resp, _) = crate::obs::simple_response(1, 200, Some(b"ok"));
                conn.c.enqueue_response(resp);
            }
            // a few short writes, like a socket under back-pressure
            for _ in 0..3 {
                if !conn.pending_write() {
                    break;
                }
                let _ = conn.try_write(crate::simstream::WrOp::Accept(7));
            }
            st.probe("writes_interleaved_with_reads");
        }
        if drain_each && conn.pending_write() {
            let _ = conn.drain_output();
            st.probe("writes_interleaved_with_reads");
        }
        if output_lost {
            // the output side is discarded between reads -- by the owner, or by a write the
            // stream refuses; the input side must not notice
            if cur.reads % 2 == 1 {
                conn.c.clear_write_buffer();
                st.probe("output_cleared_between_reads");
            } else {
                if !conn.pending_write() {
                    let (resp, _) = crate::obs::simple_response(1, 200, Some(b"ok"));
                    conn.c.enqueue_response(resp);
                }
                let _ = conn.try_write(crate::simstream::WrOp::Epipe);
                st.fault("F-werr:EPIPE");
                st.probe("write_failed_between_reads");
            }
        }
        for (o, _) in popped {
            obs.reqs.push(o);
        }
        match res {
            CallRes::Ok => {}
            CallRes::StreamRead(e) if empty && (e == libc::EAGAIN || e == libc::EINTR) => {
                st.fault(if e == libc::EAGAIN { "F-empty:EAGAIN" } else { "F-empty:EINTR" });
            }
            CallRes::Parse(e) => {
                obs.err = Some(e);
                break;
            }
            other => {
                obs.other = Some(format!("{:?}", other));
                break;
            }
        }
    }
    if pop_late || pop_one {
        let rest = conn.pop_all();
        if pop_one && !rest.is_empty() {
            st.probe("requests_left_queued_by_one_per_read_owner");
        }
        for (o, _) in rest {
            obs.reqs.push(o);
        }
        if pop_late {
            st.probe("requests_popped_late");
        }
    }
    if obs.err.is_none() && obs.other.is_none() && case.eof && conn.remaining() == 0 {
        let res = conn.try_read(RdOp::Eof(0));
        st.lib_calls += 1;
        st.steps += 1;
        st.fault("F-eof");
        for (o, _) in conn.pop_all() {
            obs.reqs.push(o);
        }
        match res {
            CallRes::Closed => obs.closed = true,
            other => obs.other = Some(format!("at EOF: {:?}", other)),
        }
        sig.u(res_code_eof(&obs));
    }
    PlainInfo { obs, data_reads, reads: cur.reads, sig }
}

fn res_code_eof(o: &PlainObs) -> u64 {
    if o.closed {
        7001
    } else {
        7002
    }
}

// ------------------------------------------------------------------- online model driver

#[derive(Clone, Copy, Debug, PartialEq, Eq)]
pub enum Projection {
    /// full request fields + error kinds (C02)
    Full,
    /// only what C04 speaks about: size-limit / line-length errors and body lengths
    Limits,
    /// only interim responses (C13)
    Continue,
}

pub struct OnlineInfo {
    pub data_reads: usize,
    pub sig: Sig,
    pub n_requests: usize,
    pub n_continue: usize,
    pub n_nocontinue_bodies: usize,
    pub error: Option<EK>,
    pub near_limit: bool,
}

fn project_err(p: Projection, e: &EK) -> EK {
    match p {
        Projection::Full => e.clone(),
        Projection::Limits | Projection::Continue => match e {
            EK::SizeLimit(a, b) => EK::SizeLimit(*a, *b),
            EK::HdrSizeLimit => EK::HdrSizeLimit,
            EK::InvalidRequest => EK::InvalidRequest,
            // everything else is "some other parse error" for these projections
            _ => EK::Overflow,
        },
    }
}

/// Run one schedule and compare, after every read, what the connection has surfaced
/// with what the reference model says is determined by the bytes delivered so far.
pub fn run_online(
    case: &ConnCase,
    sched: &[SOp],
    m: &ModelOut,
    proj: Projection,
    st: &mut Stats,
    class_prefix: &str,
) -> Result<OnlineInfo, Violation> {
    let mut conn = Conn::new(case.stream.clone(), case.limit);
    let len = case.stream.len();
    let mut cur = SchedCursor::new(sched);
    let mut sig = Sig::new();
    let structure = Structure { m };
    let mut ev_idx = 0usize;
    let mut step = 0usize;
    let mut info = OnlineInfo {
        data_reads: 0,
        sig: Sig::new(),
        n_requests: 0,
        n_continue: 0,
        n_nocontinue_bodies: 0,
        error: None,
        near_limit: false,
    };
    let viol = |class: &str, step: usize, detail: String| Violation::new(&format!("{}:{}", class_prefix, class), step, detail);
    let mut ri = 0usize;
    loop {
        let pos0 = conn.pos();
        while ri < case.relimit.len() && case.relimit[ri].0 <= pos0 {
            conn.c.set_payload_max_size(case.relimit[ri].1);
            st.probe("limit_changed_between_reads");
            if pos0 > 0 && !m.request_ends.contains(&pos0) {
                st.probe("limit_changed_inside_a_request");
            }
            ri += 1;
        }
        let op = match cur.next(pos0, len) {
            // every schedule is cut where the limit changes
            Some(RdOp::Data(n, f)) if ri < case.relimit.len() && case.relimit[ri].0 > pos0 => {
                Some(RdOp::Data(n.min(case.relimit[ri].0 - pos0), f))
            }
            other => other,
        };
        let op = match op {
            Some(op) => op,
            None => break,
        };
        let empty_kind = match op {
            RdOp::Eagain => Some(libc::EAGAIN),
            RdOp::Eintr => Some(libc::EINTR),
            _ => None,
        };
        let res = conn.try_read(op);
        st.lib_calls += 1;
        st.steps += 1;
        step += 1;
        if let CallRes::Panic(msg) = &res {
            return Err(viol("panic", step, format!("try_read panicked: {}", msg)));
        }
        let popped = conn.pop_all();
        let pos = conn.pos();
        if empty_kind.is_none() {
            info.data_reads += 1;
            probes_after_read(st, &conn, &case.stream, m, pos0, pos, popped.len());
        }
        sig.u(structure.class(pos));
        sig.u(res.code());
        sig.u(popped.len() as u64);
        abstract_conn_state(st, &conn, structure.class(pos), res.code(), popped.len());

        // what the model says became determined by bytes (pos0, pos]
        let mut exp_reqs: Vec<&ReqObs> = Vec::new();
        let mut exp_cont: Vec<u8> = Vec::new();
        let mut exp_err: Option<&EK> = None;
        while ev_idx < m.events.len() && m.events[ev_idx].0 <= pos {
            match &m.events[ev_idx].1 {
                MEvent::Request(r) => exp_reqs.push(r),
                MEvent::Continue(v) => exp_cont.push(*v),
                MEvent::Error(e) => exp_err = Some(e),
            }
            ev_idx += 1;
        }

        // an empty read surfaces nothing and reports the stream error
        if let Some(errno) = empty_kind {
            st.fault(if errno == libc::EAGAIN { "F-empty:EAGAIN" } else { "F-empty:EINTR" });
            if res != CallRes::StreamRead(errno) {
                return Err(viol("empty-read-result", step, format!("empty read (errno {}) returned {:?}", errno, res)));
            }
            if !popped.is_empty() {
                return Err(viol("request-from-empty-read", step, format!("{} request(s) delivered by a read that returned no data", popped.len())));
            }
            continue;
        }

        // requests
        if proj != Projection::Continue {
            if popped.len() != exp_reqs.len() {
                return Err(viol(
                    "request-count",
                    step,
                    format!(
                        "after {} bytes (read {}..{}): model says {} request(s) complete, connection delivered {}",
                        pos,
                        pos0,
                        pos,
                        exp_reqs.len(),
                        popped.len()
                    ),
                ));
            }
            for (k, (lib, _)) in popped.iter().enumerate() {
                let me = exp_reqs[k];
                match proj {
                    Projection::Full => {
                        if let Err(d) = matches_model(me, lib) {
                            return Err(viol("request-fields", step, format!("request #{} after {} bytes: {}", info.n_requests + k, pos, d)));
                        }
                    }
                    _ => {
                        let bl = lib.body.as_ref().map(|b| b.len()).unwrap_or(0);
                        if lib.content_length != me.content_length || bl != me.content_length as usize || bl > case.max_limit() {
                            return Err(viol(
                                "body-length",
                                step,
                                format!("declared {} delivered body {} limit {}", me.content_length, bl, case.max_limit()),
                            ));
                        }
                    }
                }
            }
        }
        info.n_requests += popped.len();
        for r in &exp_reqs {
            let n = r.content_length as usize;
            let l = case.eff_limit();
            if n + 1 >= l && n <= l + 1 {
                info.near_limit = true;
            }
            if n > 0 && !r.expect {
                info.n_nocontinue_bodies += 1;
            }
        }

        // interim responses
        if proj == Projection::Continue || proj == Projection::Full {
            let out = conn.drain_output().map_err(|d| viol("drain", step, d))?;
            let (resps, used) = read_responses(&out).map_err(|d| viol("interim-malformed", step, d))?;
            if used != out.len() {
                return Err(viol("interim-malformed", step, format!("{} trailing bytes after interim responses", out.len() - used)));
            }
            if proj == Projection::Continue {
                let got: Vec<u8> = resps.iter().map(|r| r.version).collect();
                if resps.iter().any(|r| r.code != 100) {
                    return Err(viol("interim-not-100", step, format!("queued a {} response during try_read", resps.iter().find(|r| r.code != 100).unwrap().code)));
                }
                if got != exp_cont {
                    return Err(viol(
                        "continue-count",
                        step,
                        format!(
                            "after {} bytes (read {}..{}): expected 100-continue x{} (versions {:?}), got x{} (versions {:?})",
                            pos,
                            pos0,
                            pos,
                            exp_cont.len(),
                            exp_cont,
                            got.len(),
                            got
                        ),
                    ));
                }
                for r in &resps {
                    if !r.body.is_empty() || r.header("Content-Length").is_some() {
                        return Err(viol("continue-shape", step, "100 Continue carries a body or Content-Length".into()));
                    }
                }
            }
            info.n_continue += resps.len();
        }

        // errors
        match (&res, exp_err) {
            (CallRes::Ok, None) => {}
            (CallRes::Parse(got), Some(want)) => {
                if project_err(proj, got) != project_err(proj, want) {
                    return Err(viol(
                        "error-kind",
                        step,
                        format!("after {} bytes: model says first error is {:?}, connection reported {:?}", pos, want, got),
                    ));
                }
                info.error = Some(got.clone());
                if let EK::SizeLimit(l, n) = got {
                    if *n <= l + 1 {
                        info.near_limit = true;
                    }
                }
                sig.u(9000 + got.code());
                info.sig = sig;
                return Ok(info);
            }
            (CallRes::Ok, Some(want)) => {
                return Err(viol(
                    "error-missed",
                    step,
                    format!("after {} bytes the model says {:?} is determined, but try_read returned Ok", pos, want),
                ));
            }
            (CallRes::Parse(got), None) => {
                return Err(viol(
                    "error-spurious",
                    step,
                    format!("after {} bytes (read {}..{}) try_read reported {:?}; the model sees no error in that prefix", pos, pos0, pos, got),
                ));
            }
            (other, _) => {
                return Err(viol("unexpected-result", step, format!("data read returned {:?}", other)));
            }
        }
    }
    // end of input
    if case.eof && conn.remaining() == 0 {
        let res = conn.try_read(RdOp::Eof(0));
        st.lib_calls += 1;
        st.steps += 1;
        st.fault("F-eof");
        step += 1;
        let popped = conn.pop_all();
        if !popped.is_empty() {
            return Err(viol("request-at-eof", step, format!("{} request(s) delivered by the EOF read", popped.len())));
        }
        if res != CallRes::Closed {
            return Err(viol("eof-result", step, format!("EOF read returned {:?}", res)));
        }
        sig.u(7001);
    }
    info.sig = sig;
    Ok(info)
}

/// (length of the head, length of the pattern) if the stream is `head ++ fill_body(n, 7)` with a
/// head that ends in a blank line and n >= 100_000
fn fill_split(stream: &[u8]) -> Option<(usize, usize)> {
    if stream.len() < 100_000 {
        return None;
    }
    let head = stream[..stream.len().min(2048)].windows(4).position(|w| w == b"\r\n\r\n")? + 4;
    let n = stream.len() - head;
    if n >= 100_000 && stream[head..] == crate::props_w::fill_body(n, 7)[..] {
        Some((head, n))
    } else {
        None
    }
}
