//! Engine C: the real `HttpServer` (and everything below it) over the simulated kernel.
//! Actors: clients, the application, the kernel (ready-event order, buffer sizes, faults).
//! An execution is an explicit step list; steps that are not enabled are skipped.

use std::collections::BTreeMap;
use std::os::unix::io::AsRawFd;
use std::panic::{catch_unwind, AssertUnwindSafe};

use micro_http::{Body, HttpServer, Response, ServerError, ServerRequest};
use simkernel::eventfd::EventFd;
use simkernel::world::{self, Config, Fault, FdObj, How, LogEntry, OutThreshold, Sys};

use crate::core::{Stats, Violation};
use crate::json::{self, J};
use crate::model::{model_stream, read_response, serialize_response, MEvent, ReadErr, RespObs, RespSpec, WINDOW};
use crate::obs::{panic_msg, status_of};
use crate::rng::Sig;

pub const SOCK_PATH: &str = "/sim/micro-http.sock";
pub const FULL_MSG: &[u8] = b"HTTP/1.1 503\r\nServer: Firecracker API\r\nConnection: close\r\nContent-Length: 40\r\n\r\n{ \"error\": \"Too many open connections\" }";
pub const MAX_CONN: usize = 10;

#[derive(Clone, Debug, PartialEq, Eq)]
pub enum SStep {
    Connect(usize),
    /// send the next n bytes of the client's script (as many as the socket accepts)
    Send(usize, usize),
    Recv(usize, usize),
    ShutRd(usize),
    ShutWr(usize),
    Close(usize),
    Poll { key: u64, eintr: bool },
    Respond { tag: String, code: u16, pad: usize },
    RespondAll { code: u16, pad: usize },
    Flush,
    SetLimit(usize),
    Kill,
    /// next server-side receive on this client's connection fails with errno
    FaultRead(usize, i32),
    /// next server-side write on this client's connection is interrupted
    FaultWriteEintr(usize),
    /// drain to quiescence in the middle of the history (fill/drain cycles)
    Drain,
    /// the server process forks; the child inherits the open descriptors, never uses them, and
    /// lives on (closing an inherited connection no longer hangs it up or deregisters it from epoll)
    Fork,
    /// the next epoll_wait reports this client's connection readable although nothing is (a spurious
    /// readiness notification: the receive then fails with EAGAIN)
    SpuriousIn(usize),
    /// simulated time passes (seconds): every clock the server could read jumps ahead
    Sleep(u64),
    /// the wall clock is stepped by this many seconds (forwards or backwards); the monotonic clock is not
    ClockStep(i64),
    /// from now on this many milliseconds of simulated time pass with every system call (a slow or
    /// heavily loaded machine): time also passes *inside* one library call
    Pace(u64),
    /// this client becomes a spinning sender: from now on, whenever the server has received from
    /// its connection the socket is already full again (endless header lines; the one client action
    /// that happens *inside* library calls)
    Firehose(usize),
    /// the client passes this many descriptors (real pipe ends, SCM_RIGHTS) with the next byte it sends
    PassFds(usize, usize),
}

#[derive(Clone, Debug)]
pub struct SrvCase {
    pub cap_c2s: usize,
    pub cap_s2c: usize,
    pub quarter: bool,
    pub kill_switch: bool,
    pub limit: Option<usize>,
    pub scripts: Vec<Vec<u8>>,
    pub steps: Vec<SStep>,
    /// C18: insert Kill at this step index and poll afterwards (None = no sweep position);
    /// usize::MAX = every position (systematic sweep)
    pub kill_at: Option<usize>,
    /// call add_kill_switch() after start_server() instead of before
    pub kill_after_start: bool,
    /// the simulated process starts with descriptors 0..2 closed (a daemon): the server's listener,
    /// epoll and connections get numbers from 0
    pub fds_from_zero: bool,
    /// the application creates the kill-switch eventfd BEFORE the server (with daemon-style numbering
    /// the server's copy is then descriptor 0)
    pub kill_first: bool,
    /// the application binds the listening socket itself and hands its descriptor over
    /// (HttpServer::new_from_fd) instead of a path
    pub from_fd: bool,
    /// start_server() is called a second time (the second call fails with EEXIST; nothing may change)
    pub start_twice: bool,
    /// the application replaces the kill switch: add_kill_switch() with a throw-away eventfd first
    pub kill_twice: bool,
    /// with daemon-style numbering: descriptor 0 is occupied during set-up and freed afterwards, so
    /// the first accepted connection is descriptor 0
    pub placeholder0: bool,
    /// start_server() is never called (only meaningful for C18: the kill switch must still work)
    pub skip_start: bool,
    /// the process already holds many descriptors: numbers start at 300 (1) or 70000 (2)
    /// (nothing may assume that a descriptor number fits 8 or 16 bits)
    pub fd_high: u8,
}

impl SStep {
    pub fn to_json(&self) -> J {
        let a = |v: Vec<J>| J::Arr(v);
        match self {
            SStep::Connect(c) => a(vec![json::s("connect"), json::u(*c)]),
            SStep::Send(c, n) => a(vec![json::s("send"), json::u(*c), json::u(*n)]),
            SStep::Recv(c, n) => a(vec![json::s("recv"), json::u(*c), json::u(*n)]),
            SStep::ShutRd(c) => a(vec![json::s("shut_rd"), json::u(*c)]),
            SStep::ShutWr(c) => a(vec![json::s("shut_wr"), json::u(*c)]),
            SStep::Close(c) => a(vec![json::s("close"), json::u(*c)]),
            SStep::Poll { key, eintr } => a(vec![json::s("poll"), J::Int(*key as i128), J::Bool(*eintr)]),
            SStep::Respond { tag, code, pad } => a(vec![json::s("respond"), json::s(tag), json::u(*code as usize), json::u(*pad)]),
            SStep::RespondAll { code, pad } => a(vec![json::s("respond_all"), json::u(*code as usize), json::u(*pad)]),
            SStep::Flush => a(vec![json::s("flush")]),
            SStep::SetLimit(l) => a(vec![json::s("set_limit"), json::u(*l)]),
            SStep::Kill => a(vec![json::s("kill")]),
            SStep::FaultRead(c, e) => a(vec![json::s("fault_read"), json::u(*c), json::i(*e)]),
            SStep::FaultWriteEintr(c) => a(vec![json::s("fault_write_eintr"), json::u(*c)]),
            SStep::Drain => a(vec![json::s("drain")]),
            SStep::Fork => a(vec![json::s("fork")]),
            SStep::SpuriousIn(c) => a(vec![json::s("spurious_in"), json::u(*c)]),
            SStep::Sleep(secs) => a(vec![json::s("sleep"), json::u(*secs as usize)]),
            SStep::ClockStep(secs) => a(vec![json::s("clock_step"), json::i(*secs)]),
            SStep::Pace(ms) => a(vec![json::s("pace"), json::u(*ms as usize)]),
            SStep::Firehose(c) => a(vec![json::s("firehose"), json::u(*c)]),
            SStep::PassFds(c, k) => a(vec![json::s("pass_fds"), json::u(*c), json::u(*k)]),
        }
    }
    pub fn from_json(j: &J) -> Result<SStep, String> {
        let a = j.arr().ok_or("step")?;
        let k = a.first().and_then(|x| x.str()).ok_or("step kind")?;
        let n = |i: usize| -> Result<usize, String> { a.get(i).and_then(|x| x.usize()).ok_or_else(|| format!("step arg {}", i)) };
        Ok(match k {
            "connect" => SStep::Connect(n(1)?),
            "send" => SStep::Send(n(1)?, n(2)?),
            "recv" => SStep::Recv(n(1)?, n(2)?),
            "shut_rd" => SStep::ShutRd(n(1)?),
            "shut_wr" => SStep::ShutWr(n(1)?),
            "close" => SStep::Close(n(1)?),
            "poll" => SStep::Poll {
                key: a.get(1).and_then(|x| x.int()).ok_or("key")? as u64,
                eintr: a.get(2).and_then(|x| x.bool()).unwrap_or(false),
            },
            "respond" => SStep::Respond { tag: a.get(1).and_then(|x| x.str()).ok_or("tag")?.to_string(), code: n(2)? as u16, pad: n(3)? },
            "respond_all" => SStep::RespondAll { code: n(1)? as u16, pad: n(2)? },
            "flush" => SStep::Flush,
            "set_limit" => SStep::SetLimit(n(1)?),
            "kill" => SStep::Kill,
            "fault_read" => SStep::FaultRead(n(1)?, a.get(2).and_then(|x| x.int()).ok_or("errno")? as i32),
            "fault_write_eintr" => SStep::FaultWriteEintr(n(1)?),
            "drain" => SStep::Drain,
            "fork" => SStep::Fork,
            "spurious_in" => SStep::SpuriousIn(n(1)?),
            "sleep" => SStep::Sleep(n(1)? as u64),
            "pace" => SStep::Pace(n(1)? as u64),
            "firehose" => SStep::Firehose(n(1)?),
            "pass_fds" => SStep::PassFds(n(1)?, n(2)?),
            "clock_step" => SStep::ClockStep(a.get(1).and_then(|x| x.int()).ok_or("secs")? as i64),
            _ => return Err(format!("unknown step {}", k)),
        })
    }
}

impl SrvCase {
    pub fn to_json(&self) -> J {
        json::obj(vec![
            ("engine", json::s("C")),
            ("cap_c2s", json::u(self.cap_c2s)),
            ("cap_s2c", json::u(self.cap_s2c)),
            ("quarter", J::Bool(self.quarter)),
            ("kill_switch", J::Bool(self.kill_switch)),
            ("limit", match self.limit {
                Some(l) => json::u(l),
                None => J::Null,
            }),
            ("scripts", J::Arr(self.scripts.iter().map(|s| json::hex(s)).collect())),
            ("scripts_text", J::Arr(self.scripts.iter().map(|s| json::s(&json::show(s))).collect())),
            ("steps", J::Arr(self.steps.iter().map(|s| s.to_json()).collect())),
            ("kill_at", match self.kill_at {
                Some(usize::MAX) => json::i(-1),
                Some(k) => json::u(k),
                None => J::Null,
            }),
            ("kill_after_start", J::Bool(self.kill_after_start)),
            ("fds_from_zero", J::Bool(self.fds_from_zero)),
            ("kill_first", J::Bool(self.kill_first)),
            ("from_fd", J::Bool(self.from_fd)),
            ("start_twice", J::Bool(self.start_twice)),
            ("kill_twice", J::Bool(self.kill_twice)),
            ("placeholder0", J::Bool(self.placeholder0)),
            ("skip_start", J::Bool(self.skip_start)),
            ("fd_high", json::u(self.fd_high as usize)),
        ])
    }
    pub fn from_json(j: &J) -> Result<SrvCase, String> {
        let mut scripts = Vec::new();
        for s in j.req_arr("scripts")? {
            scripts.push(s.bytes().ok_or("script")?);
        }
        let mut steps = Vec::new();
        for s in j.req_arr("steps")? {
            steps.push(SStep::from_json(s)?);
        }
        Ok(SrvCase {
            cap_c2s: j.req_usize("cap_c2s")?,
            cap_s2c: j.req_usize("cap_s2c")?,
            quarter: j.get("quarter").and_then(|x| x.bool()).unwrap_or(true),
            kill_switch: j.get("kill_switch").and_then(|x| x.bool()).unwrap_or(false),
            limit: j.get("limit").and_then(|x| x.usize()),
            scripts,
            steps,
            kill_at: j.get("kill_at").and_then(|x| x.int()).map(|k| if k < 0 { usize::MAX } else { k as usize }),
            kill_after_start: j.get("kill_after_start").and_then(|x| x.bool()).unwrap_or(false),
            fds_from_zero: j.get("fds_from_zero").and_then(|x| x.bool()).unwrap_or(false),
            kill_first: j.get("kill_first").and_then(|x| x.bool()).unwrap_or(false),
            from_fd: j.get("from_fd").and_then(|x| x.bool()).unwrap_or(false),
            start_twice: j.get("start_twice").and_then(|x| x.bool()).unwrap_or(false),
            kill_twice: j.get("kill_twice").and_then(|x| x.bool()).unwrap_or(false),
            placeholder0: j.get("placeholder0").and_then(|x| x.bool()).unwrap_or(false),
            skip_start: j.get("skip_start").and_then(|x| x.bool()).unwrap_or(false),
            fd_high: j.get("fd_high").and_then(|x| x.usize()).unwrap_or(0) as u8,
        })
    }
}

// ------------------------------------------------------------------ simulation state

#[derive(Clone, Copy, Debug, PartialEq, Eq)]
pub enum Accept {
    NotYet,
    Served,
    Refused,
}

pub struct Client {
    pub conn: usize,
    pub off: usize,
    pub sent: Vec<u8>,
    pub recvd: Vec<u8>,
    /// recvd parsed so far
    pub parsed: usize,
    pub resps: Vec<RespObs>,
    pub closed: bool,
    pub shut_rd: bool,
    pub shut_wr: bool,
    pub eof_seen: bool,
    pub reset_seen: bool,
    pub accept: Accept,
    pub read_fault: bool,
    /// a spinning sender (see SStep::Firehose) and how many of its bytes are in `sent` already
    pub firehose: bool,
    pub fire_synced: u64,
    /// read ends of the pipes whose write ends this client passed to the server
    pub pipes: Vec<crate::fds::Pipe>,
    /// server-side receives on this connection that failed with EAGAIN / EINTR
    pub read_faults_fired: usize,
    /// one entry per such failure: None until the first moment afterwards at which the epoll
    /// descriptor was quiet and this client's socket writable; then the number of bytes the
    /// server had written to the client by that moment
    pub fault_marks: Vec<Option<usize>>,
    /// some server-side write on this connection failed with something other than EINTR
    pub any_srv_write_error: bool,
    pub write_fault: bool,
    /// a server-side write on this connection failed (not EINTR): the client can no longer be written to
    pub srv_write_failed: bool,
    /// ... and that happened inside flush_outgoing_writes() while the application still owed it answers
    pub failed_in_flush_while_owed: bool,
    /// epoll_wait reported a hang-up condition (HUP / RDHUP / ERR) for this connection to the server
    pub server_saw_hangup: bool,
    /// tags yielded to the application, in order
    pub yielded: Vec<String>,
    /// tags the application answered (respond() returned Ok), in order, with the serialised bytes
    pub responded: Vec<(String, Vec<u8>)>,
    /// exact byte stream this client should receive as long as it is clean
    pub expected_out: Vec<u8>,
    /// number of model Continue events already turned into expected_out
    pub continues_done: usize,
    pub limit_at_accept: usize,
    /// server-side bytes read at the last model refresh
    pub model_upto: u64,
    /// cached expected requests (tags) from the model over `sent`
    pub sent_since_model: bool,
    /// tags received back (application responses), in order
    pub got_tags: Vec<String>,
    /// per-read reference model of the server side of this connection: offset in `sent` where the
    /// current parser incarnation started (a parse error restarts parsing with the NEXT read)
    pub restart_at: usize,
    /// bytes of `sent` the server has read so far
    pub read_total: usize,
    /// tags that must have been yielded so far, given the reads the server performed
    pub exp_yield: Vec<String>,
    /// the corresponding requests as the reference model sees them (all public fields)
    pub exp_reqs: Vec<crate::model::ReqObs>,
    /// how many of the yielded requests have been compared field by field
    pub compared: usize,
    /// requests yielded from this connection so far, tagged or not (untagged ones are attributed
    /// through the per-read model: the next expected yield of exactly this client is untagged)
    pub yielded_all: usize,
    /// number of 400 replies the server must have queued so far
    pub exp_400: usize,
    /// for each expected 400: Some((limit, declared)) when it answers a payload-limit violation
    pub exp_400_kinds: Vec<Option<(usize, usize)>>,
    /// tags of requests that were rejected / dropped (must never be yielded)
    pub rejected: Vec<String>,
    /// 100-continue responses queued in the current incarnation already accounted
    pub exp_100: usize,
}

pub struct Flags {
    /// requests()/respond() returning Err is a violation
    pub poll_must_succeed: bool,
    /// all clients are supposed to be well-behaved: exact output, exactly-once yield, no idle poll
    pub well_behaved: bool,
    /// routing oracle on every byte received (always on in practice)
    pub routing: bool,
    /// capacity / refusal / leak oracles
    pub capacity: bool,
    /// witness client id that must stay clean and be fully served
    pub witness: Option<usize>,
    /// released-when-answered oracle on closed clients
    pub release: bool,
    /// clients that stay open must receive one 400 per rejected request (with both numbers for a
    /// payload-limit violation), must have all their later well-formed requests yielded, and must
    /// receive every response the application gave (C04 / C11 server level)
    pub recovery: bool,
    pub prop: &'static str,
}

pub struct ServerSim {
    pub server: Option<HttpServer>,
    pub kill: Option<EventFd>,
    /// the harness' copy of a kill switch that was replaced (kept open, never signalled)
    pub kill_extra: Option<EventFd>,
    /// connections (stub ids) that were releasable when the previous successful requests() call
    /// ended - client gone, hang-up seen by the server, nothing owed - and yet still held
    pub stale_conns: Vec<usize>,
    pub epfd: i32,
    pub case_limit: usize,
    pub clients: BTreeMap<usize, Client>,
    pub conn_to_client: Vec<usize>,
    /// another server alive in the same process (never polled again after set-up)
    pub sibling: Option<HttpServer>,
    pub outstanding: Vec<(String, usize, ServerRequest)>,
    pub killed: bool,
    pub flags: Flags,
    pub step_no: usize,
    pub polls: u64,
    pub idle_polls: u64,
    pub sig: Sig,
    pub obs: Sig,
    /// the trace left the property's precondition (e.g. a client misbehaved in a C08 run)
    pub out_of_scope: bool,
    // probes
    pub max_open: usize,
    pub refused: u64,
    pub fd_reuse_while_held: bool,
    pub late_respond_after_close: u64,
    pub closed_with_inflight: u64,
    pub big_response_delivered: bool,
    pub kill_not_first: bool,
    pub flush_then_poll: bool,
    pub last_was_flush: bool,
    pub write_failures_with_inflight: u64,
    pub overlapping: bool,
    pub shutdown_returns: u64,
    pub scripts: Vec<Vec<u8>>,
    pub cap_s2c: usize,
    pub poll_results: Vec<u8>,
    pub continue_waits: u64,
    pub err400_seen: u64,
    /// a client received its 100 Continue while it was still withholding the body
    pub got_100_while_withholding: u64,
    /// the library call whose syscall log is being digested is flush_outgoing_writes
    pub in_flush: bool,
    /// a request was yielded from a connection that had a request rejected before
    pub yield_after_error: u64,
}

fn tag_client(tag: &str) -> Option<usize> {
    // exactly "c<digits>r<digits>"
    let t = tag.strip_prefix('c')?;
    let r = t.find('r')?;
    let (a, b) = (&t[..r], &t[r + 1..]);
    if a.is_empty() || b.is_empty() || !a.bytes().all(|c| c.is_ascii_digit()) || !b.bytes().all(|c| c.is_ascii_digit()) {
        return None;
    }
    a.parse().ok()
}

/// the harness tag of a request: its path must be exactly "/" + tag (a corrupted URI that still
/// parses is "untagged", never mistaken for another request)
fn tag_of_path(p: &str) -> Option<String> {
    let t = p.strip_prefix('/')?;
    tag_client(t).map(|_| t.to_string())
}

/// does `text` contain the decimal number n as a whole number (not as part of a longer one)?
fn contains_number(text: &str, n: usize) -> bool {
    let pat = n.to_string();
    let b = text.as_bytes();
    let mut from = 0;
    while let Some(p) = text[from..].find(&pat) {
        let s = from + p;
        let e = s + pat.len();
        let left_ok = s == 0 || !b[s - 1].is_ascii_digit();
        let right_ok = e >= b.len() || !b[e].is_ascii_digit();
        if left_ok && right_ok {
            return true;
        }
        from = s + 1;
    }
    false
}

/// pads from here on are *aimed*: resolved at execution against the client's free buffer space
pub const AIM_PAD: usize = 1 << 40;

pub fn app_response(version: u8, tag: &str, code: u16, pad: usize) -> (Response, Vec<u8>) {
    let mut body = format!("<{}>", tag).into_bytes();
    body.extend(std::iter::repeat(b'x').take(pad));
    let mut r = Response::new(crate::obs::version_of(version), status_of(code));
    r.set_body(Body::new(body.clone()));
    let mut spec = RespSpec::new(version, code);
    spec.set_body(body);
    // the application also uses the other builder calls (derived from `pad`, so part of the case):
    // whatever it builds must reach its client byte for byte
    match pad % 8 {
        5 => {
            let sv: String = (0..300).map(|i| (b'A' + (i % 26) as u8) as char).collect();
            r.set_server(&sv);
            spec.server = sv;
        }
        6 => {
            for k in 0..(pad % 23) {
                r.allow_method(crate::obs::method_of((k % 3) as u8));
                spec.allow.push((k % 3) as u8);
            }
            r.set_deprecation();
            spec.deprecation = true;
        }
        7 => {
            r.set_encoding();
            spec.accept_encoding = true;
            r.set_content_type(micro_http::MediaType::PlainText);
            spec.content_type = 0;
        }
        _ => {}
    }
    (r, serialize_response(&spec))
}

fn continue_bytes(version: u8) -> Vec<u8> {
    serialize_response(&RespSpec::new(version, 100))
}

impl ServerSim {
    pub fn new(case: &SrvCase, flags: Flags) -> Result<ServerSim, Violation> {
        world::reset(Config {
            cap_c2s: case.cap_c2s.max(1),
            cap_s2c: case.cap_s2c.max(FULL_MSG.len() + 8),
            out_threshold: if case.quarter { OutThreshold::Quarter } else { OutThreshold::AnySpace },
            log: true,
            first_fd: if case.fds_from_zero {
                0
            } else {
                match case.fd_high {
                    1 => 300,
                    2 => 70_000,
                    _ => 3,
                }
            },
            // fd_high 3.. = the process holds many other descriptors: free numbers are far apart
            fd_stride: match case.fd_high {
                3 => 64,
                4 => 16,
                5 => 256,
                6 => 2,
                7 => 1024,
                8 => 32,
                9 => 4096,
                _ => 1,
            },
        });
        let prop = flags.prop;
        // fd_high 10..13: ANOTHER HttpServer lives in the same process (same thread), set up first, with
        // 3 / 6 / 8 / 9 connections of its own that stay open: nothing of it may count against this one
        let sib_n = if case.fds_from_zero { 0 } else { match case.fd_high { 10 => 3, 11 => 6, 12 => 8, 13 => 9, _ => 0 } };
        let built = catch_unwind(AssertUnwindSafe(|| -> Result<(HttpServer, Option<EventFd>, Option<EventFd>, Option<HttpServer>), String> {
            let sibling = if sib_n > 0 {
                let mut s2 = HttpServer::new("/sim/sibling.sock").map_err(|e| format!("sibling HttpServer::new: {}", e))?;
                s2.start_server().map_err(|e| format!("sibling start_server: {}", e))?;
                for _ in 0..sib_n {
                    world::with(|w| w.client_connect("/sim/sibling.sock")).map_err(|e| format!("sibling connect: errno {}", e))?;
                    s2.requests().map_err(|e| format!("sibling requests(): {}", e))?;
                }
                world::with(|w| w.mark_foreign());
                Some(s2)
            } else {
                None
            };
            let placeholder = if case.fds_from_zero && case.placeholder0 { Some(EventFd::new(libc::EFD_NONBLOCK).map_err(|e| e.to_string())?) } else { None };
            // (server's copy, harness' copy) of the kill switch, possibly created before the server
            let make = || -> Result<(EventFd, EventFd), String> {
                let srv = EventFd::new(libc::EFD_NONBLOCK).map_err(|e| e.to_string())?;
                let mine = srv.try_clone().map_err(|e| e.to_string())?;
                Ok((srv, mine))
            };
            let mut early = None;
            if case.kill_switch && case.kill_first {
                early = Some(make()?);
            }
            let mut server = if case.from_fd {
                use std::os::unix::io::AsRawFd;
                let l = simkernel::net::UnixListener::bind(SOCK_PATH).map_err(|e| format!("bind: {}", e))?;
                let fd = l.as_raw_fd();
                std::mem::forget(l);
                // SAFETY: the descriptor is owned by nobody else (the listener object was forgotten).
                unsafe { HttpServer::new_from_fd(fd) }.map_err(|e| format!("HttpServer::new_from_fd: {}", e))?
            } else {
                HttpServer::new(SOCK_PATH).map_err(|e| format!("HttpServer::new: {}", e))?
            };
            if let Some(l) = case.limit {
                server.set_payload_max_size(l);
            }
            let mut kill = None;
            let mut kill_extra = None;
            if case.kill_switch && case.kill_twice {
                // a first switch that the application replaces right away (it keeps its own copy)
                let (srv, mine) = make()?;
                server.add_kill_switch(srv).map_err(|e| format!("add_kill_switch: {}", e))?;
                kill_extra = Some(mine);
            }
            if case.kill_switch && !case.kill_after_start {
                let (srv, mine) = match early.take() {
                    Some(x) => x,
                    None => make()?,
                };
                server.add_kill_switch(srv).map_err(|e| format!("add_kill_switch: {}", e))?;
                kill = Some(mine);
            }
            if !case.skip_start {
                server.start_server().map_err(|e| format!("start_server: {}", e))?;
                if case.start_twice {
                    // registering the listener again fails (EEXIST); the server must be unaffected
                    let _ = server.start_server();
                }
            }
            if case.kill_switch && case.kill_after_start {
                let (srv, mine) = match early.take() {
                    Some(x) => x,
                    None => make()?,
                };
                server.add_kill_switch(srv).map_err(|e| format!("add_kill_switch: {}", e))?;
                kill = Some(mine);
            }
            drop(placeholder);
            Ok((server, kill, kill_extra, sibling))
        }));
        let (server, kill, kill_extra, sibling) = match built {
            Ok(Ok(x)) => x,
            Ok(Err(e)) => return Err(Violation::new(&format!("{}:setup", prop), 0, e)),
            Err(p) => return Err(Violation::new(&format!("{}:panic", prop), 0, format!("server setup panicked: {}", panic_msg(p)))),
        };
        let epfd = server.epoll().as_raw_fd();
        world::with(|w| w.take_log());
        Ok(ServerSim {
            sibling,
            server: Some(server),
            kill,
            kill_extra,
            stale_conns: Vec::new(),
            epfd,
            case_limit: case.limit.unwrap_or(51200),
            clients: BTreeMap::new(),
            conn_to_client: Vec::new(),
            outstanding: Vec::new(),
            killed: false,
            flags,
            step_no: 0,
            polls: 0,
            idle_polls: 0,
            sig: Sig::new(),
            obs: Sig::new(),
            out_of_scope: false,
            max_open: 0,
            refused: 0,
            fd_reuse_while_held: false,
            late_respond_after_close: 0,
            closed_with_inflight: 0,
            big_response_delivered: false,
            kill_not_first: false,
            flush_then_poll: false,
            last_was_flush: false,
            write_failures_with_inflight: 0,
            overlapping: false,
            shutdown_returns: 0,
            scripts: case.scripts.clone(),
            cap_s2c: case.cap_s2c.max(FULL_MSG.len() + 8),
            poll_results: Vec::new(),
            continue_waits: 0,
            err400_seen: 0,
            got_100_while_withholding: 0,
            in_flush: false,
            yield_after_error: 0,
        })
    }

    fn v(&self, class: &str, detail: String) -> Violation {
        Violation::new(&format!("{}:{}", self.flags.prop, class), self.step_no, detail)
    }

    pub fn readable(&self) -> bool {
        world::with(|w| w.epoll_readable(self.epfd))
    }

    pub fn stream_fds(&self) -> usize {
        world::with(|w| w.server_fds().iter().filter(|f| matches!(f.1, FdObj::Stream(_))).count())
    }

    /// Is this client still inside "keeps its connection open and sends only well-formed requests"?
    pub fn client_clean(&self, c: &Client) -> bool {
        if c.closed || c.shut_rd || c.shut_wr || c.read_fault || c.accept == Accept::Refused {
            return false;
        }
        let m = model_stream(&c.sent, c.limit_at_accept, WINDOW);
        !m.unspecified && !m.events.iter().any(|e| matches!(e.1, MEvent::Error(_)))
    }

    /// tags of the complete requests this client has sent (model over the accepted bytes)
    fn expected_tags(&self, c: &Client, upto: usize) -> (Vec<String>, bool) {
        let m = model_stream(&c.sent[..upto.min(c.sent.len())], c.limit_at_accept, WINDOW);
        let mut tags = Vec::new();
        let mut err = false;
        for (_, e) in &m.events {
            match e {
                MEvent::Request(r) => tags.push(tag_of_path(&r.abs_path).unwrap_or_else(|| "untagged".to_string())),
                MEvent::Error(_) => err = true,
                _ => {}
            }
        }
        (tags, err || m.unspecified)
    }

    /// account for 100-continue responses the server has queued after reading more bytes
    fn refresh_continues(&mut self, cid: usize) {
        let (srv_read, limit) = {
            let c = &self.clients[&cid];
            (world::with(|w| w.conns[c.conn].srv_read), c.limit_at_accept)
        };
        let c = self.clients.get_mut(&cid).unwrap();
        if srv_read == c.model_upto {
            return;
        }
        c.model_upto = srv_read;
        let upto = (srv_read as usize).min(c.sent.len());
        let m = model_stream(&c.sent[..upto], limit, WINDOW);
        let conts: Vec<u8> = m.events.iter().filter_map(|e| if let MEvent::Continue(v) = e.1 { Some(v) } else { None }).collect();
        while c.continues_done < conts.len() {
            let b = continue_bytes(conts[c.continues_done]);
            c.expected_out.extend(b);
            c.continues_done += 1;
        }
    }

    // ---------------------------------------------------------------- steps

    /// Apply one step. Ok(true) = applied, Ok(false) = not enabled (skipped).
    pub fn step(&mut self, s: &SStep, st: &mut Stats) -> Result<bool, Violation> {
        self.step_no += 1;
        st.steps += 1;
        let was_flush = self.last_was_flush;
        self.last_was_flush = false;
        let applied = match s {
            SStep::Connect(c) => {
                if self.clients.contains_key(c) || *c >= self.scripts.len().max(64) {
                    false
                } else {
                    match world::with(|w| w.client_connect(SOCK_PATH)) {
                        Ok(conn) => {
                            while self.conn_to_client.len() <= conn {
                                self.conn_to_client.push(usize::MAX);
                            }
                            self.conn_to_client[conn] = *c;
                            self.clients.insert(
                                *c,
                                Client {
                                    conn,
                                    off: 0,
                                    sent: vec![],
                                    recvd: vec![],
                                    parsed: 0,
                                    resps: vec![],
                                    closed: false,
                                    shut_rd: false,
                                    shut_wr: false,
                                    eof_seen: false,
                                    reset_seen: false,
                                    accept: Accept::NotYet,
                                    read_fault: false,
                                    firehose: false,
                                    fire_synced: 0,
                                    pipes: Vec::new(),
                                    read_faults_fired: 0,
                                    fault_marks: Vec::new(),
                                    any_srv_write_error: false,
                                    write_fault: false,
                                    srv_write_failed: false,
                                    failed_in_flush_while_owed: false,
                                    server_saw_hangup: false,
                                    yielded: vec![],
                                    responded: vec![],
                                    expected_out: vec![],
                                    continues_done: 0,
                                    limit_at_accept: self.case_limit,
                                    model_upto: 0,
                                    sent_since_model: false,
                                    got_tags: vec![],
                                    restart_at: 0,
                                    read_total: 0,
                                    exp_yield: vec![],
                                    exp_reqs: vec![],
                                    compared: 0,
                                    yielded_all: 0,
                                    exp_400: 0,
                                    exp_400_kinds: vec![],
                                    rejected: vec![],
                                    exp_100: 0,
                                },
                            );
                            self.sig.u(1);
                            true
                        }
                        Err(_) => false,
                    }
                }
            }
            SStep::Send(c, n) => {
                let script_len = self.scripts.get(*c).map(|s| s.len()).unwrap_or(0);
                match self.clients.get_mut(c) {
                    Some(cl) if !cl.closed && !cl.shut_wr && cl.off < script_len && *n > 0 => {
                        let end = (cl.off + n).min(script_len);
                        let piece = &self.scripts[*c][cl.off..end];
                        match world::with(|w| w.client_send(cl.conn, piece)) {
                            Ok(k) => {
                                cl.sent.extend_from_slice(&piece[..k]);
                                cl.off += k;
                                self.sig.u(2);
                                k > 0
                            }
                            Err(e) => {
                                // EAGAIN: no space; EPIPE / ECONNRESET: the server side is gone
                                self.sig.u(200 + e as u64);
                                if e == libc::ECONNRESET {
                                    cl.reset_seen = true;
                                }
                                false
                            }
                        }
                    }
                    _ => false,
                }
            }
            SStep::Recv(c, max) => {
                if self.clients.get(c).map(|cl| !cl.closed && !cl.shut_rd).unwrap_or(false) {
                    self.client_recv(*c, *max)?
                } else {
                    false
                }
            }
            SStep::ShutRd(c) => match self.clients.get_mut(c) {
                Some(cl) if !cl.closed && !cl.shut_rd => {
                    let _ = world::with(|w| w.client_shutdown(cl.conn, How::Rd));
                    cl.shut_rd = true;
                    st.fault("F-half:shut_rd");
                    self.sig.u(4);
                    true
                }
                _ => false,
            },
            SStep::ShutWr(c) => match self.clients.get_mut(c) {
                Some(cl) if !cl.closed && !cl.shut_wr => {
                    let _ = world::with(|w| w.client_shutdown(cl.conn, How::Wr));
                    cl.shut_wr = true;
                    st.fault("F-half:shut_wr");
                    self.sig.u(5);
                    true
                }
                _ => false,
            },
            SStep::Close(c) => match self.clients.get_mut(c) {
                Some(cl) if !cl.closed => {
                    let unread = world::with(|w| w.s2c_queued(cl.conn)) > 0;
                    world::with(|w| w.client_close(cl.conn));
                    cl.closed = true;
                    let inflight = self.outstanding.iter().filter(|o| o.1 == *c).count();
                    if inflight > 0 {
                        self.closed_with_inflight += 1;
                        st.probe("close_with_requests_in_flight");
                    }
                    if unread {
                        st.fault("F-rst:close_with_unread_output");
                    }
                    if cl.accept == Accept::NotYet {
                        st.fault("F-full:connect_then_close_before_accept");
                    }
                    st.fault("F-close");
                    self.sig.u(6);
                    true
                }
                _ => false,
            },
            SStep::Poll { key, eintr } => {
                if !self.readable() {
                    false
                } else {
                    if was_flush {
                        self.flush_then_poll = true;
                    }
                    self.poll(*key, *eintr, st)?;
                    true
                }
            }
            SStep::Respond { tag, code, pad } => match self.outstanding.iter().position(|o| o.0 == *tag) {
                Some(i) => {
                    self.respond(i, *code, *pad, st)?;
                    true
                }
                None => false,
            },
            SStep::RespondAll { code, pad } => {
                if self.outstanding.is_empty() {
                    // an empty batch is a legal call: it must succeed and change nothing
                    st.probe("empty_batch_enqueue_responses");
                }
                self.respond_batch(*code, *pad, st)?;
                true
            }
            SStep::Flush => {
                // well-behaved configuration: only when every queued response fits its client's buffer
                let mut fits = true;
                let mut any = false;
                for (_, cl) in self.clients.iter() {
                    // only clients that are (still) well-behaved are owed anything by a flush
                    if cl.accept != Accept::Served || !self.client_clean(cl) {
                        continue;
                    }
                    let written = world::with(|w| w.conns[cl.conn].srv_written) as usize;
                    let owed = cl.expected_out.len().saturating_sub(written);
                    if owed > 0 {
                        any = true;
                        if world::with(|w| w.s2c_free(cl.conn)) < owed {
                            fits = false;
                        }
                    }
                }
                // flush_outgoing_writes treats EAGAIN as a dead connection and drops its output; the
                // properties promise delivery only for output that fits the socket buffer, so a flush
                // is issued only when that holds for every well-behaved client (DESIGN 4, C08)
                if !fits {
                    false
                } else {
                    let _ = any;
                    self.flush(st)?;
                    self.last_was_flush = true;
                    true
                }
            }
            SStep::SetLimit(l) => {
                // only while nobody waits to be accepted, so "the limit when the client connected" is unambiguous
                let backlog_empty = world::with(|w| w.listeners.iter().all(|li| li.backlog.is_empty()));
                if !backlog_empty {
                    false
                } else {
                    let l = *l;
                    let r = catch_unwind(AssertUnwindSafe(|| self.server.as_mut().unwrap().set_payload_max_size(l)));
                    if r.is_err() {
                        return Err(self.v("panic", "set_payload_max_size panicked".into()));
                    }
                    self.case_limit = l;
                    self.sig.u(11);
                    true
                }
            }
            SStep::Kill => match (&self.kill, self.killed) {
                (Some(k), false) => {
                    let _ = k.write(1);
                    self.killed = true;
                    st.fault("F-kill");
                    self.sig.u(12);
                    true
                }
                _ => false,
            },
            SStep::FaultRead(c, e) => match self.clients.get_mut(c) {
                Some(cl) if cl.accept == Accept::Served && !cl.closed => {
                    let conn = cl.conn;
                    cl.read_fault = true;
                    world::with(|w| w.faults.push(Fault { sys: Sys::Read, conn: Some(conn), errno: *e }));
                    self.sig.u(13);
                    true
                }
                _ => false,
            },
            SStep::FaultWriteEintr(c) => match self.clients.get_mut(c) {
                Some(cl) if cl.accept == Accept::Served && !cl.closed => {
                    let conn = cl.conn;
                    cl.write_fault = true;
                    world::with(|w| w.faults.push(Fault { sys: Sys::Write, conn: Some(conn), errno: libc::EINTR }));
                    self.sig.u(14);
                    true
                }
                _ => false,
            },
            SStep::Drain => {
                self.drain(st)?;
                true
            }
            SStep::SpuriousIn(c) => match self.clients.get_mut(c) {
                Some(cl) if cl.accept == Accept::Served && !cl.closed => {
                    let conn = cl.conn;
                    cl.read_fault = true;
                    world::with(|w| {
                        if !w.spurious_in.contains(&conn) {
                            w.spurious_in.push(conn);
                        }
                    });
                    st.fault("F-spurious-readiness");
                    self.sig.u(16);
                    true
                }
                _ => false,
            },
            SStep::Sleep(secs) => {
                simkernel::rawsys::clock::advance(secs.saturating_mul(1_000_000_000));
                st.fault("F-time-passes");
                self.sig.u(17);
                true
            }
            SStep::PassFds(c, k) => match self.clients.get_mut(c) {
                Some(cl) if !cl.closed && !cl.shut_wr && cl.pipes.len() + *k <= 12 => {
                    let mut wr = Vec::new();
                    for _ in 0..*k {
                        if let Ok((p, w)) = crate::fds::make_pipe() {
                            cl.pipes.push(p);
                            wr.push(crate::fds::into_region(w));
                        }
                    }
                    let conn = cl.conn;
                    world::with(|w| w.client_pass_fds(conn, &wr));
                    st.fault("F-fdspread:server-level");
                    self.sig.u(21);
                    true
                }
                _ => false,
            },
            SStep::Firehose(c) => {
                let script_len = self.scripts.get(*c).map(|s| s.len()).unwrap_or(0);
                match self.clients.get_mut(c) {
                    Some(cl) if cl.accept == Accept::Served && !cl.closed && !cl.shut_wr && !cl.firehose => {
                        cl.firehose = true;
                        // nothing more comes from the script: the rest of the client's life is the pattern
                        cl.off = script_len;
                        let conn = cl.conn;
                        world::with(|w| w.firehose_start(conn));
                        self.sync_firehose();
                        st.fault("F-spinning-sender");
                        self.sig.u(20);
                        true
                    }
                    _ => false,
                }
            }
            SStep::Pace(ms) => {
                simkernel::rawsys::clock::set_tick(ms.saturating_mul(1_000_000));
                st.fault("F-slow-machine");
                self.sig.u(19);
                true
            }
            SStep::ClockStep(secs) => {
                simkernel::rawsys::clock::step_realtime(secs.saturating_mul(1_000_000_000));
                st.fault(if *secs < 0 { "F-wall-clock-stepped-back" } else { "F-wall-clock-stepped-forward" });
                self.sig.u(18);
                true
            }
            SStep::Fork => {
                let open = self.stream_fds();
                world::with(|w| w.fork_inherit());
                st.fault("F-fork");
                if open > 0 {
                    st.probe("fork_with_connections_open");
                }
                self.sig.u(15);
                true
            }
        };
        if applied {
            self.after_step(st)?;
        }
        Ok(applied)
    }

    fn client_recv(&mut self, c: usize, max: usize) -> Result<bool, Violation> {
        let conn = self.clients[&c].conn;
        match world::with(|w| w.client_recv(conn, max.max(1))) {
            Ok(v) => {
                if v.is_empty() {
                    let cl = self.clients.get_mut(&c).unwrap();
                    let first = !cl.eof_seen;
                    cl.eof_seen = true;
                    self.sig.u(31);
                    Ok(first)
                } else {
                    self.sig.u(3);
                    self.clients.get_mut(&c).unwrap().recvd.extend_from_slice(&v);
                    self.judge_received(c)?;
                    Ok(true)
                }
            }
            Err(e) => {
                if e == libc::ECONNRESET {
                    let cl = self.clients.get_mut(&c).unwrap();
                    cl.reset_seen = true;
                }
                Ok(false)
            }
        }
    }

    /// Routing oracle (C07): every byte a client receives belongs to a well-formed response that is
    /// the application's answer to one of ITS requests (once, in order) or a server-generated
    /// reply to its own input. For clean clients additionally: exact expected byte stream.
    fn judge_received(&mut self, c: usize) -> Result<(), Violation> {
        loop {
            let (parsed, r) = {
                let cl = &self.clients[&c];
                if cl.parsed >= cl.recvd.len() {
                    break;
                }
                (cl.parsed, read_response(&cl.recvd[cl.parsed..]))
            };
            let resp = match r {
                Ok(r) => r,
                Err(ReadErr::Incomplete) => break,
                Err(ReadErr::Malformed(m)) => {
                    return Err(self.v("client-received-garbage", format!("client {} received bytes that are not a well-formed response (at offset {}): {}", c, parsed, m)));
                }
            };
            let body = resp.body.clone();
            let is_app = body.first() == Some(&b'<') && body.iter().position(|&b| b == b'>').map(|p| tag_client(std::str::from_utf8(&body[1..p]).unwrap_or("")).is_some()).unwrap_or(false);
            if body.starts_with(b"<untagged>") {
                // answer to a valid request whose tag was destroyed: attributable only by count
                let cl = &self.clients[&c];
                let sent_untagged = cl.exp_yield.iter().filter(|t| *t == "untagged").count();
                let got_untagged = cl.resps.iter().filter(|r| r.body.starts_with(b"<untagged>")).count() + 1;
                if got_untagged > sent_untagged {
                    return Err(self.v(
                        "misrouted-response",
                        format!("client {} received {} answer(s) to untagged requests but sent only {} such request(s)", c, got_untagged, sent_untagged),
                    ));
                }
            } else if is_app {
                let p = body.iter().position(|&b| b == b'>').unwrap();
                let tag = std::str::from_utf8(&body[1..p]).unwrap().to_string();
                let owner = tag_client(&tag).unwrap();
                if owner != c {
                    return Err(self.v(
                        "misrouted-response",
                        format!("client {} received the application's response to request {} of client {}", c, tag, owner),
                    ));
                }
                let cl = &self.clients[&c];
                if cl.got_tags.contains(&tag) {
                    return Err(self.v("duplicate-response", format!("client {} received the response to {} twice", c, tag)));
                }
                let idx = cl.responded.iter().position(|r| r.0 == tag);
                let idx = match idx {
                    Some(i) => i,
                    None => return Err(self.v("phantom-response", format!("client {} received a response to {} which the application never gave", c, tag))),
                };
                if let Some(prev) = cl.got_tags.last() {
                    let pi = cl.responded.iter().position(|r| r.0 == *prev).unwrap_or(0);
                    if pi > idx {
                        return Err(self.v("responses-out-of-order", format!("client {} received {} after {} but the application answered them in the other order", c, tag, prev)));
                    }
                }
                // exact bytes of that response
                let exp = &cl.responded[idx].1;
                let got = &cl.recvd[parsed..parsed + resp.len];
                if got != &exp[..] {
                    return Err(self.v("response-bytes-altered", format!("client {}: response to {} differs from what the application supplied", c, tag)));
                }
                if resp.len > self.cap_s2c {
                    self.big_response_delivered = true;
                }
                self.clients.get_mut(&c).unwrap().got_tags.push(tag);
            } else {
                let cl = &self.clients[&c];
                match resp.code {
                    100 => {
                        let asked = cl.sent.windows(6).any(|w| w.eq_ignore_ascii_case(b"expect"));
                        if !asked {
                            return Err(self.v("unsolicited-100", format!("client {} received 100 Continue without having sent an Expect header", c)));
                        }
                        let m = model_stream(&cl.sent, cl.limit_at_accept, WINDOW);
                        let withholding = m.events.iter().rev().find(|e| matches!(e.1, MEvent::Continue(_))).map(|e| e.0 == cl.sent.len()).unwrap_or(false);
                        if withholding {
                            self.got_100_while_withholding += 1;
                        }
                    }
                    400 => {
                        if cl.sent.is_empty() {
                            return Err(self.v("unsolicited-400", format!("client {} received a 400 without having sent anything", c)));
                        }
                        self.err400_seen += 1;
                    }
                    500 => {
                        if !cl.read_fault {
                            return Err(self.v("unsolicited-500", format!("client {} received a 500 although no read fault was injected on its connection", c)));
                        }
                        // lost wake-up for server-generated output: this reply starts at stream offset
                        // `parsed`; if, after EVERY failed receive so far, there was an idle moment
                        // (epoll quiet, socket writable) at which the server had not yet written it,
                        // the server was sitting on unsent output without signalling
                        if !cl.fault_marks.is_empty() && cl.fault_marks.iter().all(|m| matches!(m, Some(w) if *w <= parsed)) {
                            return Err(self.v(
                                "output-held-back",
                                format!(
                                    "client {}: the 500 for a failed receive starts at output offset {}, but the epoll descriptor was quiet (and the client's socket writable) after the failure with only {:?} byte(s) written",
                                    c, parsed, cl.fault_marks
                                ),
                            ));
                        }
                        if !cl.fault_marks.is_empty() {
                            self.clients.get_mut(&c).unwrap().fault_marks.remove(0);
                        }
                    }
                    503 => {
                        let whole = &cl.recvd[parsed..parsed + resp.len];
                        if whole != FULL_MSG {
                            return Err(self.v("bad-503", format!("client {} received a 503 that is not the fixed server-full message", c)));
                        }
                        if parsed != 0 {
                            return Err(self.v("late-503", format!("client {} received the server-full message after other output", c)));
                        }
                    }
                    other => {
                        return Err(self.v(
                            "unattributable-response",
                            format!("client {} received a {} response that is neither an application response (tag) nor a server-generated reply", c, other),
                        ));
                    }
                }
            }
            let cl = self.clients.get_mut(&c).unwrap();
            cl.parsed += resp.len;
            cl.resps.push(resp);
        }
        // exact stream for clean clients
        if self.flags.well_behaved || self.flags.witness == Some(c) {
            let cl = &self.clients[&c];
            if cl.recvd.len() > cl.expected_out.len() || cl.recvd[..] != cl.expected_out[..cl.recvd.len()] {
                if self.client_clean(cl) {
                    let k = cl.recvd.iter().zip(cl.expected_out.iter()).position(|(a, b)| a != b).unwrap_or(cl.recvd.len().min(cl.expected_out.len()));
                    return Err(self.v(
                        "output-stream-differs",
                        format!("client {}: received bytes diverge from the expected output stream at offset {} (received {}, expected {})", c, k, cl.recvd.len(), cl.expected_out.len()),
                    ));
                }
            }
        }
        Ok(())
    }

    fn respond(&mut self, i: usize, code: u16, pad: usize, st: &mut Stats) -> Result<(), Violation> {
        let (tag, cid, req) = self.outstanding.remove(i);
        let version = match req.inner().http_version() {
            micro_http::Version::Http10 => 0,
            micro_http::Version::Http11 => 1,
        };
        // an *aimed* size (pad >= AIM_PAD): the response is sized against the space that is free in
        // its client's socket buffer right now - it fills it exactly, misses by one byte either way,
        // or its head alone fills it - so that "written completely" and "short write" coincide
        let pad = if pad >= AIM_PAD { self.resolve_aimed_pad(cid, version, &tag, code, pad - AIM_PAD, st) } else { pad };
        // the application is free to answer in another HTTP version than the request's
        let version = if pad % 5 == 4 { 1 - version } else { version };
        let (resp, bytes) = app_response(version, &tag, code, pad);
        let mut slot = Some(resp);
        let sresp = req.process(|_r| slot.take().unwrap());
        world::with(|w| w.take_log());
        let r = catch_unwind(AssertUnwindSafe(|| self.server.as_mut().unwrap().respond(sresp)));
        st.lib_calls += 1;
        self.sig.u(7);
        match r {
            Ok(Ok(())) => {}
            Ok(Err(e)) => {
                if self.flags.poll_must_succeed {
                    return Err(self.v("respond-err", format!("respond() for {} failed: {}", tag, e)));
                }
            }
            Err(p) => return Err(self.v("panic", format!("respond() panicked: {}", panic_msg(p)))),
        }
        let log = world::with(|w| w.take_log());
        self.account_log(&log, st)?;
        if let Some(cl) = self.clients.get_mut(&cid) {
            if cl.closed {
                self.late_respond_after_close += 1;
                st.probe("respond_after_client_closed");
                st.fault("F-late:respond_after_close");
            }
            cl.responded.push((tag, bytes.clone()));
            cl.expected_out.extend(bytes);
        }
        Ok(())
    }

    /// pad for which the serialised response relates to the free space of the client's socket buffer
    /// (minus output already queued for it) as `kind` says: 0 exactly as long, 1 one byte longer,
    /// 2 one byte shorter, 3 the head alone exactly as long. Falls back to a small pad when the space
    /// is smaller than the smallest response. A function of the simulated state only, so it replays.
    fn resolve_aimed_pad(&mut self, cid: usize, version: u8, tag: &str, code: u16, kind: usize, st: &mut Stats) -> usize {
        let (free, owed) = match self.clients.get(&cid) {
            Some(cl) if cl.accept == Accept::Served && !cl.closed => {
                let written = world::with(|w| w.conns[cl.conn].srv_written) as usize;
                (world::with(|w| w.s2c_free(cl.conn)), cl.expected_out.len().saturating_sub(written))
            }
            _ => return kind,
        };
        let space = free.saturating_sub(owed);
        let len_of = |p: usize| app_response(version, tag, code, p).1.len();
        if kind == 3 {
            // the head alone fills the space: head length is changed through the 300-byte Server string
            // (pad % 8 == 5) or left alone; pick the pad in 0..64 whose head is closest from below and
            // report whether it was hit exactly
            let head_of = |p: usize| {
                let b = app_response(version, tag, code, p).1;
                b.windows(4).position(|w| w == b"\r\n\r\n").map(|x| x + 4).unwrap_or(b.len())
            };
            for p in 0..64usize {
                if head_of(p) == space {
                    st.probe("response_head_fills_client_buffer_exactly");
                    return p;
                }
            }
            return kind;
        }
        let target = match kind {
            0 => space,
            1 => space + 1,
            _ => space.saturating_sub(1),
        };
        let base = len_of(0);
        if target < base || target > 200_000 {
            return kind;
        }
        let est = target - base;
        for p in est.saturating_sub(12)..=est + 2 {
            if p % 8 < 5 && len_of(p) == target {
                st.probe("response_sized_against_free_buffer_space");
                return p;
            }
        }
        est
    }

    /// answer everything outstanding with ONE call of the batch API, in yield order
    fn respond_batch(&mut self, code: u16, pad: usize, st: &mut Stats) -> Result<(), Violation> {
        let mut batch = Vec::new();
        let mut records = Vec::new();
        for (tag, cid, req) in self.outstanding.drain(..) {
            let version = match req.inner().http_version() {
                micro_http::Version::Http10 => 0,
                micro_http::Version::Http11 => 1,
            };
            let version = if pad % 5 == 4 { 1 - version } else { version };
            let (resp, bytes) = app_response(version, &tag, code, pad);
            let mut slot = Some(resp);
            batch.push(req.process(|_r| slot.take().unwrap()));
            records.push((tag, cid, bytes));
        }
        world::with(|w| w.take_log());
        let r = catch_unwind(AssertUnwindSafe(|| self.server.as_mut().unwrap().enqueue_responses(batch)));
        st.lib_calls += 1;
        self.sig.u(71);
        st.probe("batch_enqueue_responses");
        match r {
            Ok(Ok(())) => {}
            Ok(Err(e)) => {
                if self.flags.poll_must_succeed {
                    return Err(self.v("respond-err", format!("enqueue_responses() failed: {}", e)));
                }
            }
            Err(p) => return Err(self.v("panic", format!("enqueue_responses() panicked: {}", panic_msg(p)))),
        }
        let log = world::with(|w| w.take_log());
        self.account_log(&log, st)?;
        for (tag, cid, bytes) in records {
            if let Some(cl) = self.clients.get_mut(&cid) {
                if cl.closed {
                    self.late_respond_after_close += 1;
                    st.probe("respond_after_client_closed");
                    st.fault("F-late:respond_after_close");
                }
                cl.responded.push((tag, bytes.clone()));
                cl.expected_out.extend(bytes);
            }
        }
        Ok(())
    }

    fn flush(&mut self, st: &mut Stats) -> Result<(), Violation> {
        world::with(|w| w.take_log());
        let before: Vec<(usize, usize, usize)> = self
            .clients
            .iter()
            .filter(|(_, cl)| cl.accept == Accept::Served)
            .map(|(id, cl)| (*id, cl.expected_out.len(), world::with(|w| w.s2c_free(cl.conn))))
            .collect();
        let r = catch_unwind(AssertUnwindSafe(|| self.server.as_mut().unwrap().flush_outgoing_writes()));
        st.lib_calls += 1;
        st.fault("F-flush");
        self.sig.u(8);
        if let Err(p) = r {
            let w = p.downcast_ref::<simkernel::WouldBlockForever>().cloned();
            return Err(match w {
                Some(w) => self.v("blocked", format!("flush_outgoing_writes blocked in {} on fd {}", w.syscall, w.fd)),
                None => self.v("panic", format!("flush_outgoing_writes panicked: {}", panic_msg(p))),
            });
        }
        let log = world::with(|w| w.take_log());
        self.in_flush = true;
        let r = self.account_log(&log, st);
        self.in_flush = false;
        r?;
        // flushing also releases what has become releasable (the sweep at its end): whatever is
        // still held although releasable now must not justify a refusal later
        for c in self.releasable_but_held() {
            if !self.stale_conns.contains(&c) {
                self.stale_conns.push(c);
            }
        }
        if self.flags.well_behaved {
            // queued responses that fit the socket buffer are delivered without polling
            for (id, exp_len, free) in before {
                let cl = &self.clients[&id];
                if !self.client_clean(cl) {
                    continue;
                }
                let written = world::with(|w| w.conns[cl.conn].srv_written) as usize;
                let owed_before = exp_len.saturating_sub(written.min(exp_len));
                let _ = free;
                if written < exp_len {
                    return Err(self.v(
                        "flush-incomplete",
                        format!("after flush_outgoing_writes client {} is still owed {} byte(s) that fit its socket buffer", id, exp_len - written),
                    ));
                }
                let _ = owed_before;
            }
        }
        Ok(())
    }

    /// Reference model of what the server does with one successful read of n bytes on a connection:
    /// requests completed by this read are yielded unless the same read surfaces a parse error, in
    /// which case they are dropped, a 400 is queued and parsing restarts with the next read.
    fn model_server_read(&mut self, cid: usize, n: usize) {
        let c = match self.clients.get_mut(&cid) {
            Some(c) => c,
            None => return,
        };
        let a = c.read_total;
        let b = (a + n).min(c.sent.len());
        c.read_total = b;
        let m = model_stream(&c.sent[c.restart_at..b], c.limit_at_accept, WINDOW);
        let lo = a - c.restart_at;
        let mut tags = Vec::new();
        let mut reqs = Vec::new();
        let mut err = false;
        let mut kind = None;
        for (at, e) in &m.events {
            if *at <= lo {
                continue;
            }
            match e {
                MEvent::Request(r) => {
                    tags.push(tag_of_path(&r.abs_path).unwrap_or_else(|| "untagged".to_string()));
                    reqs.push(r.clone());
                }
                MEvent::Error(k) => {
                    err = true;
                    if let crate::model::EK::SizeLimit(l, n) = k {
                        kind = Some((*l, *n));
                    }
                }
                MEvent::Continue(_) => c.exp_100 += 1,
            }
        }
        if err || m.unspecified {
            c.rejected.extend(tags);
            c.exp_400 += 1;
            c.exp_400_kinds.push(kind);
            c.restart_at = b;
        } else {
            if c.exp_400 > 0 && !tags.is_empty() {
                self.yield_after_error += 1;
            }
            c.exp_yield.extend(tags);
            c.exp_reqs.extend(reqs);
        }
    }

    /// digest the stub's syscall log of one library call
    /// bytes a spinning sender has put into its socket since the last look are bytes the client sent
    fn sync_firehose(&mut self) {
        for cl in self.clients.values_mut() {
            if cl.firehose {
                let inj = world::with(|w| w.firehose_injected(cl.conn));
                let unit = simkernel::world::World::FIREHOSE_UNIT;
                while cl.fire_synced < inj {
                    cl.sent.push(unit[(cl.fire_synced % unit.len() as u64) as usize]);
                    cl.fire_synced += 1;
                }
            }
        }
    }

    fn account_log(&mut self, log: &[LogEntry], st: &mut Stats) -> Result<bool, Violation> {
        self.sync_firehose();
        let mut progress = false;
        let mut accepted_now: Vec<(usize, i32, usize, usize)> = Vec::new();
        // number of stream descriptors open before each accept is reconstructed from the log
        let mut open_streams = {
            // current count minus accepts plus closes in this log = count before the call
            let now = self.stream_fds() as i64;
            let acc = log.iter().filter(|e| matches!(e, LogEntry::Accept { .. })).count() as i64;
            let cls = log.iter().filter(|e| matches!(e, LogEntry::Close { conn: Some(_), .. })).count() as i64;
            (now - acc + cls) as usize
        };
        // a refusal is justified by 10 held connections at the accept OR at the start of the call
        // (when the dead connections are reaped within a call is the implementation's choice)
        let at_call_start = open_streams;
        for e in log {
            match e {
                LogEntry::Accept { conn, fd } => {
                    progress = true;
                    accepted_now.push((*conn, *fd, open_streams, open_streams.max(at_call_start)));
                    open_streams += 1;
                    self.max_open = self.max_open.max(open_streams);
                    // descriptor number re-used while the application still holds a request of a previous owner?
                    // (cannot be seen from ids; approximated: a connection of a closed client is still open)
                    if let Some(cid) = self.conn_to_client.get(*conn) {
                        if let Some(cl) = self.clients.get_mut(cid) {
                            cl.limit_at_accept = self.case_limit;
                        }
                    }
                }
                LogEntry::Close { conn: Some(_), .. } => {
                    progress = true;
                    open_streams = open_streams.saturating_sub(1);
                }
                LogEntry::Read { conn, res: Ok(n), .. } if *n > 0 => {
                    progress = true;
                    if let Some(cid) = self.conn_to_client.get(*conn).cloned() {
                        self.model_server_read(cid, *n);
                    }
                }
                LogEntry::Read { res: Ok(_), .. } => progress = true, // EOF observed: state change
                LogEntry::Read { conn, res: Err(e), .. } => {
                    st.fault("F-empty:server-recv-error");
                    progress = true;
                    if *e == libc::EAGAIN || *e == libc::EINTR {
                        if let Some(cid) = self.conn_to_client.get(*conn).cloned() {
                            if let Some(cl) = self.clients.get_mut(&cid) {
                                cl.read_faults_fired += 1;
                                cl.fault_marks.push(None);
                            }
                        }
                    }
                }
                LogEntry::Write { res: Ok(n), len, .. } => {
                    if *n > 0 {
                        progress = true;
                    }
                    if n < len {
                        st.fault("F-short:server-write");
                    }
                }
                LogEntry::Write { conn, res: Err(e), .. } => {
                    progress = true;
                    if *e == libc::EINTR {
                        st.fault("F-wintr");
                    } else {
                        st.fault("F-werr:server-write-failed");
                        if let Some(cid) = self.conn_to_client.get(*conn) {
                            let owed = self.outstanding.iter().any(|o| o.1 == *cid);
                            let in_flush = self.in_flush;
                            if let Some(cl) = self.clients.get_mut(cid) {
                                cl.any_srv_write_error = true;
                                if *e != libc::EAGAIN {
                                    cl.srv_write_failed = true;
                                    if in_flush && owed {
                                        cl.failed_in_flush_while_owed = true;
                                    }
                                }
                            }
                        }
                        if let Some(cid) = self.conn_to_client.get(*conn) {
                            if self.outstanding.iter().any(|o| o.1 == *cid) {
                                self.write_failures_with_inflight += 1;
                                st.probe("write_failure_with_requests_in_flight");
                            }
                        }
                    }
                }
                LogEntry::EpollCtl { op, events, .. } => {
                    progress = true;
                    if *op == 3 {
                        if events & 0x4 != 0 {
                            st.probe("interest_switch_IN_to_OUT");
                        } else {
                            st.probe("interest_switch_OUT_to_IN");
                        }
                    }
                }
                LogEntry::EpollWait { res: Ok(evs) } => {
                    if evs.len() >= 2 {
                        st.fault("F-order:multi-event-batch");
                    }
                    for (id, _fd, mask) in evs.iter() {
                        if *id != world::OBJ_LISTENER && *id != world::OBJ_EVENTFD && mask & 0x2018 != 0 {
                            if let Some(cid) = self.conn_to_client.get(*id) {
                                if let Some(cl) = self.clients.get_mut(cid) {
                                    cl.server_saw_hangup = true;
                                }
                            }
                        }
                    }
                    if let Some(p) = evs.iter().position(|e| e.0 == world::OBJ_EVENTFD) {
                        if p > 0 {
                            self.kill_not_first = true;
                            st.probe("kill_event_not_first_in_batch");
                        }
                    }
                }
                LogEntry::EpollWait { res: Err(_) } => {
                    st.fault("F-eintr:epoll_wait");
                }
                _ => {}
            }
        }
        if self.flags.capacity || self.flags.well_behaved {
            if self.stream_fds() > MAX_CONN || open_streams > MAX_CONN {
                return Err(self.v("more-than-10-connections", format!("{} connection descriptors are open in the server process", self.stream_fds())));
            }
        }
        // refusals: decided from the log (503 written + closed within the same call)
        for (conn, fd, before, before_or_at_start) in accepted_now {
            let refused = log.iter().any(|e| matches!(e, LogEntry::Close { fd: f, conn: Some(c) } if *f == fd && *c == conn));
            let cid = self.conn_to_client.get(conn).cloned().unwrap_or(usize::MAX);
            if let Some(cl) = self.clients.get_mut(&cid) {
                cl.accept = if refused { Accept::Refused } else { Accept::Served };
            }
            if refused {
                self.refused += 1;
                st.fault("F-full:refused_at_capacity");
                st.probe("ten_open_plus_one_refused");
                if self.flags.capacity && before_or_at_start < MAX_CONN {
                    return Err(self.v(
                        "refused-below-capacity",
                        format!("client {} was refused although only {} connection(s) were held by the server", cid, before),
                    ));
                }
                // ... and connections that were already releasable when the PREVIOUS call ended (client
                // gone, hang-up seen, nothing owed) do not justify a refusal: capacity was to be regained
                let stale = self
                    .stale_conns
                    .iter()
                    .filter(|c| {
                        world::with(|w| w.conns[**c].server_fd.is_some())
                            || log.iter().any(|e| matches!(e, LogEntry::Close { conn: Some(x), .. } if x == *c))
                    })
                    .count();
                if self.flags.capacity && stale > 0 && before_or_at_start - stale.min(before_or_at_start) < MAX_CONN {
                    return Err(self.v(
                        "refused-while-releasable-connection-held",
                        format!(
                            "client {} was refused: {} connection(s) were held, but {} of them had been releasable since the previous requests() call ended (client gone, hang-up seen by the server, nothing owed)",
                            cid, before_or_at_start, stale
                        ),
                    ));
                }
            } else if before >= MAX_CONN {
                return Err(self.v("served-above-capacity", format!("client {} was accepted as connection number {}", cid, before + 1)));
            }
        }
        Ok(progress)
    }

    /// connections whose client is gone, whose hang-up the server has seen, for which nothing is owed,
    /// and which the server process still holds
    fn releasable_but_held(&self) -> Vec<usize> {
        self.clients
            .iter()
            .filter(|(id, cl)| {
                cl.closed
                    && cl.server_saw_hangup
                    && cl.accept == Accept::Served
                    && !self.outstanding.iter().any(|o| o.1 == **id)
                    && world::with(|w| w.conns[cl.conn].server_fd.is_some() && w.conns[cl.conn].extra_refs == 0)
            })
            .map(|(_, cl)| cl.conn)
            .collect()
    }

    pub fn poll(&mut self, key: u64, eintr: bool, st: &mut Stats) -> Result<(), Violation> {
        world::with(|w| {
            w.next_order_key = key;
            w.next_wait_eintr = eintr;
            w.take_log();
        });
        self.polls += 1;
        let r = catch_unwind(AssertUnwindSafe(|| self.server.as_mut().unwrap().requests()));
        st.lib_calls += 1;
        let log = world::with(|w| w.take_log());
        self.sig.u(9);
        let reqs = match r {
            Err(p) => {
                let w = p.downcast_ref::<simkernel::WouldBlockForever>().cloned();
                return Err(match w {
                    Some(w) => self.v("blocked", format!("requests() blocked in {} on fd {}", w.syscall, w.fd)),
                    None => self.v("panic", format!("requests() panicked: {}", panic_msg(p))),
                });
            }
            Ok(Err(ServerError::ShutdownEvent)) => {
                self.poll_results.push(2);
                self.sig.u(92);
                if !self.killed {
                    return Err(self.v("spurious-shutdown", "requests() reported a shutdown that was never signalled".into()));
                }
                self.shutdown_returns += 1;
                self.account_log(&log, st)?;
                return Ok(());
            }
            Ok(Err(e)) => {
                self.poll_results.push(1);
                self.sig.u(91);
                let kind = match &e {
                    ServerError::ConnectionError(micro_http::ConnectionError::InvalidWrite) => "InvalidWrite".to_string(),
                    ServerError::ConnectionError(_) => "ConnectionError".to_string(),
                    ServerError::IOError(_) => "IOError".to_string(),
                    ServerError::Overflow => "Overflow".to_string(),
                    ServerError::Underflow => "Underflow".to_string(),
                    ServerError::ServerFull => "ServerFull".to_string(),
                    ServerError::ShutdownEvent => "ShutdownEvent".to_string(),
                };
                let _ = self.account_log(&log, st);
                if self.killed {
                    return Err(self.v("shutdown-missed", format!("kill switch signalled but requests() returned Err({})", e)));
                }
                if self.flags.poll_must_succeed {
                    return Err(self.v(&format!("poll-err:{}", kind), format!("requests() returned Err({})", e)));
                }
                return Ok(());
            }
            Ok(Ok(v)) => v,
        };
        self.poll_results.push(0);
        if self.killed {
            return Err(self.v("shutdown-missed", format!("kill switch signalled but requests() returned Ok with {} request(s)", reqs.len())));
        }
        let progress = self.account_log(&log, st)?;
        // a pending client must not be ignored: when epoll_wait reported the listener and the call
        // returned normally, an accept must have been made (serve or refuse); otherwise the client
        // neither gets service nor the 503, and the level-triggered listener makes the caller spin
        {
            let mut listener_reported = false;
            let mut accepted = false;
            for e in &log {
                match e {
                    LogEntry::EpollWait { res: Ok(v) } => {
                        if v.iter().any(|x| x.0 == simkernel::world::OBJ_LISTENER) {
                            listener_reported = true;
                        }
                    }
                    LogEntry::Accept { .. } | LogEntry::AcceptBlocked => accepted = true,
                    _ => {}
                }
            }
            if listener_reported {
                st.probe("listener_event_delivered");
                if !accepted {
                    return Err(self.v(
                        "pending-client-ignored",
                        "epoll_wait reported the listening socket and requests() returned normally without accepting: the waiting client gets neither service nor the 503".into(),
                    ));
                }
            }
        }
        self.sig.u(reqs.len() as u64);
        // 100-continue accounting for every client the server read from
        let ids: Vec<usize> = self.clients.keys().cloned().collect();
        for id in &ids {
            if self.clients[id].accept == Accept::Served {
                self.refresh_continues(*id);
            }
        }
        if eintr && !log.iter().any(|e| matches!(e, LogEntry::EpollWait { res: Err(_) })) {
            // the injected EINTR was not consumed (cannot happen)
        }
        let nreq = reqs.len();
        for req in reqs {
            let path = req.inner().uri().get_abs_path().to_string();
            let tag = match tag_of_path(&path) {
                Some(t) => t,
                None => {
                    // a valid request whose harness tag was destroyed (only hostile clients send those)
                    self.out_of_scope = self.out_of_scope || self.flags.well_behaved;
                    "untagged".to_string()
                }
            };
            let cid = match tag_client(&tag) {
                Some(c) => c,
                None => self
                    .clients
                    .iter()
                    .find(|(_, cl)| cl.exp_yield.get(cl.yielded_all).map(|t| t == "untagged").unwrap_or(false))
                    .map(|(id, _)| *id)
                    .unwrap_or(usize::MAX),
            };
            let lib_obs = crate::obs::obs_of(req.inner());
            if tag == "untagged" {
                if let Some(cl) = self.clients.get_mut(&cid) {
                    cl.yielded_all += 1;
                }
            } else if let Some(cl) = self.clients.get_mut(&cid) {
                cl.yielded_all += 1;
                cl.yielded.push(tag.clone());
                // the yielded request must carry exactly the bytes the client sent (all public fields)
                let k = cl.yielded.len() - 1;
                let tagged: Vec<&crate::model::ReqObs> =
                    cl.exp_yield.iter().zip(cl.exp_reqs.iter()).filter(|(t, _)| *t != "untagged").map(|(_, r)| r).collect();
                if let Some(want) = tagged.get(k) {
                    if let Err(d) = crate::obs::matches_model(want, &lib_obs) {
                        let msg = format!("client {}: request {} was yielded with altered content: {}", cid, tag, d);
                        return Err(self.v("yielded-request-fields", msg));
                    }
                    cl.compared += 1;
                }
            }
            if self.outstanding.iter().any(|o| o.1 != cid) {
                self.overlapping = true;
            }
            self.obs.bytes(tag.as_bytes());
            self.outstanding.push((tag, cid, req));
        }
        // yield oracle: what was yielded so far must be a prefix of the complete requests each client sent,
        // each once, in order (and nothing from a rejected request)
        {
            for id in &ids {
                let cl = &self.clients[id];
                if cl.yielded.is_empty() && cl.exp_yield.is_empty() {
                    continue;
                }
                let tags: Vec<String> = cl.exp_yield.iter().filter(|t| *t != "untagged").cloned().collect();
                if cl.yielded != tags {
                    return Err(self.v(
                        "yield-mismatch",
                        format!(
                            "client {}: the application was handed {:?}; given the bytes the server has read, exactly {:?} must have been yielded (rejected/dropped: {:?})",
                            id, cl.yielded, tags, cl.rejected
                        ),
                    ));
                }
            }
        }
        // connections that are releasable now, at the end of a successful call, and still held
        self.stale_conns = self.releasable_but_held();
        if !self.stale_conns.is_empty() {
            st.probe("releasable_connection_still_held_at_end_of_call");
        }
        if !progress && nreq == 0 && !eintr {
            self.idle_polls += 1;
            st.probe("idle_poll");
            if self.flags.well_behaved && !self.out_of_scope && self.all_clean() {
                return Err(self.v("spin", "the epoll descriptor signalled readiness but requests() did nothing (no byte moved, nothing accepted, yielded or re-armed)".into()));
            }
        }
        Ok(())
    }

    pub fn all_clean(&self) -> bool {
        self.clients.values().all(|c| self.client_clean(c))
    }

    /// invariants evaluated after every applied step
    fn abstract_state(&self) -> u64 {
        let mut parts: Vec<u64> = Vec::new();
        for (id, cl) in self.clients.iter() {
            let unanswered = self.outstanding.iter().filter(|o| o.1 == *id).count().min(2) as u64;
            let (queued, written) = world::with(|w| (w.c2s_queued(cl.conn), w.conns[cl.conn].srv_written as usize));
            let owed = (cl.expected_out.len() > written) as u64;
            let peer: u64 = if cl.closed {
                3
            } else if cl.shut_rd && cl.shut_wr {
                2
            } else if cl.shut_rd || cl.shut_wr {
                1
            } else {
                0
            };
            let acc: u64 = match cl.accept {
                Accept::NotYet => 0,
                Accept::Served => 1,
                Accept::Refused => 2,
            };
            parts.push(acc | peer << 2 | unanswered << 4 | owed << 6 | ((queued > 0) as u64) << 7);
        }
        parts.sort_unstable();
        let mut h = Sig::new();
        for p in parts {
            h.u(p);
        }
        let backlog = world::with(|w| w.listeners.iter().any(|l| l.open && !l.backlog.is_empty()));
        h.u(self.readable() as u64 | (backlog as u64) << 1 | (self.killed as u64) << 2);
        h.get()
    }

    fn after_step(&mut self, st: &mut Stats) -> Result<(), Violation> {
        st.state(self.abstract_state());
        // idle moments after a failed receive: whatever reply the server queued for it (a 500, if it
        // sends one at all) could have been written by now
        if self.clients.values().any(|c| c.fault_marks.iter().any(|m| m.is_none())) && !self.readable() {
            for cl in self.clients.values_mut() {
                if cl.fault_marks.iter().any(|m| m.is_none()) {
                    let (written, writable) = world::with(|w| {
                        let open = w.conns[cl.conn].server_fd.is_some();
                        (w.conns[cl.conn].srv_written as usize, open && w.client_poll_peer_writable(cl.conn))
                    });
                    if writable {
                        for m in cl.fault_marks.iter_mut() {
                            if m.is_none() {
                                *m = Some(written);
                            }
                        }
                    }
                }
            }
        }
        if self.flags.well_behaved && !self.killed {
            if !self.all_clean() {
                self.out_of_scope = true;
                return Ok(());
            }
            // lost wake-up: while the epoll descriptor is NOT readable there must be no deliverable work
            if !self.readable() {
                let backlog = world::with(|w| w.listeners.iter().any(|l| l.open && !l.backlog.is_empty()));
                if backlog {
                    return Err(self.v("lost-wakeup", "a client is waiting to be accepted but the epoll descriptor is not readable".into()));
                }
                for (id, cl) in self.clients.iter() {
                    if cl.accept != Accept::Served {
                        continue;
                    }
                    let (queued, written, writable) = world::with(|w| {
                        let fd = w.conns[cl.conn].server_fd;
                        let wr = fd.map(|_| w.client_poll_peer_writable(cl.conn)).unwrap_or(false);
                        (w.c2s_queued(cl.conn), w.conns[cl.conn].srv_written as usize, wr)
                    });
                    let owed = cl.expected_out.len().saturating_sub(written);
                    if owed > 0 && writable {
                        return Err(self.v(
                            "lost-wakeup",
                            format!("client {} is owed {} byte(s) and its socket is writable, but the epoll descriptor is not readable", id, owed),
                        ));
                    }
                    if queued > 0 && owed == 0 {
                        return Err(self.v(
                            "lost-wakeup",
                            format!("client {} has {} unread byte(s) queued at the server and nothing blocks it, but the epoll descriptor is not readable", id, queued),
                        ));
                    }
                }
            }
        }
        Ok(())
    }

    /// End-of-run drain: clients read everything, the application answers everything,
    /// poll while readable. No timing assumption; bounded by iterations only.
    pub fn drain(&mut self, st: &mut Stats) -> Result<(), Violation> {
        // a spinning sender never lets the server come to rest: it leaves first
        let spinning: Vec<usize> = self.clients.iter().filter(|(_, c)| c.firehose && !c.closed).map(|(id, _)| *id).collect();
        for id in spinning {
            self.step(&SStep::Close(id), st)?;
        }
        let mut iterations = 0;
        let mut consecutive_idle = 0;
        loop {
            iterations += 1;
            if iterations > 10_000 {
                return Err(self.v("drain-does-not-terminate", "10000 drain iterations without reaching quiescence".into()));
            }
            let mut progress = false;
            let ids: Vec<usize> = self.clients.keys().cloned().collect();
            for id in &ids {
                let (open, conn) = {
                    let cl = &self.clients[id];
                    (!cl.closed && !cl.shut_rd, cl.conn)
                };
                if !open {
                    continue;
                }
                loop {
                    let avail = world::with(|w| w.s2c_queued(conn));
                    if avail == 0 {
                        // observe EOF once
                        let cl = &self.clients[id];
                        if !cl.eof_seen && world::with(|w| w.client_poll(conn)) & 0x2000 != 0 {
                            if self.client_recv(*id, 4096)? {
                                progress = true;
                            }
                        }
                        break;
                    }
                    if self.client_recv(*id, 65536)? {
                        progress = true;
                    } else {
                        break;
                    }
                }
            }
            while !self.outstanding.is_empty() {
                self.respond(0, 200, 3, st)?;
                progress = true;
            }
            if self.readable() {
                let idle_before = self.idle_polls;
                let key = 0x5EED_0000 + self.polls;
                self.poll(key, false, st)?;
                self.after_step(st)?;
                if self.killed {
                    // after a shutdown indication nothing more is served: stop here
                    return Ok(());
                }
                if self.idle_polls > idle_before || self.poll_results.last() == Some(&1) {
                    consecutive_idle += 1;
                    if consecutive_idle > 50 {
                        if self.flags.poll_must_succeed {
                            return Err(self.v("spin", "50 consecutive polls on a readable epoll descriptor made no progress".into()));
                        }
                        return Ok(());
                    }
                } else {
                    consecutive_idle = 0;
                }
                progress = true;
            }
            if !progress {
                break;
            }
        }
        Ok(())
    }

    /// Checks evaluated once the history (and the drain) is over.
    pub fn final_checks(&mut self, st: &mut Stats) -> Result<(), Violation> {
        let _ = st;
        if self.killed {
            return Ok(());
        }
        let ids: Vec<usize> = self.clients.keys().cloned().collect();
        for id in &ids {
            let cl = &self.clients[id];
            let clean = self.client_clean(cl);
            let must_be_served = clean && cl.accept == Accept::Served && (self.flags.well_behaved || self.flags.witness == Some(*id));
            if must_be_served {
                // each complete request yielded exactly once, in order
                let (tags, _) = self.expected_tags(cl, cl.sent.len());
                if cl.yielded != tags {
                    return Err(self.v(
                        "request-not-yielded",
                        format!("client {} sent complete requests {:?}; the application was handed {:?}", id, tags, cl.yielded),
                    ));
                }
                // every response (and interim response) received in full
                if cl.recvd != cl.expected_out {
                    return Err(self.v(
                        "response-not-delivered",
                        format!(
                            "client {} read everything available and received {} byte(s); {} byte(s) were due (responses to {:?})",
                            id,
                            cl.recvd.len(),
                            cl.expected_out.len(),
                            cl.responded.iter().map(|r| r.0.clone()).collect::<Vec<_>>()
                        ),
                    ));
                }
            }
            if cl.accept == Accept::Refused && !cl.closed && !cl.shut_rd {
                // the refused client gets exactly the message, then EOF
                if cl.recvd != FULL_MSG {
                    return Err(self.v("refused-client-output", format!("refused client {} received {} byte(s), not the fixed 503 message", id, cl.recvd.len())));
                }
                if !cl.eof_seen && !cl.reset_seen {
                    return Err(self.v("refused-client-not-disconnected", format!("refused client {} was not disconnected", id)));
                }
            }
        }
        if self.flags.recovery {
            for id in &ids {
                let cl = &self.clients[id];
                if cl.closed || cl.shut_rd || cl.shut_wr || cl.accept != Accept::Served || cl.read_fault || cl.write_fault {
                    continue;
                }
                // the server must have consumed everything this client sent
                if cl.read_total != cl.sent.len() {
                    return Err(self.v(
                        "input-not-consumed",
                        format!("client {} stays connected and sent {} byte(s); the server read only {} even after the drain", id, cl.sent.len(), cl.read_total),
                    ));
                }
                // server-generated 400s only (the application may answer with a 400 of its own, which carries a tag)
                let got400: Vec<&RespObs> =
                    cl.resps.iter().filter(|r| r.code == 400 && !r.body.starts_with(b"<c") && !r.body.starts_with(b"<untagged>")).collect();
                if got400.len() != cl.exp_400 {
                    return Err(self.v(
                        "wrong-number-of-400s",
                        format!("client {} had {} request(s) rejected but received {} 400 response(s)", id, cl.exp_400, got400.len()),
                    ));
                }
                for (r, k) in got400.iter().zip(cl.exp_400_kinds.iter()) {
                    if let Some((l, n)) = k {
                        let text = String::from_utf8_lossy(&r.body).to_string();
                        if !contains_number(&text, *l) || !contains_number(&text, *n) {
                            return Err(self.v(
                                "limit-not-reported",
                                format!("client {}: the 400 for a payload of {} with limit {} does not report both numbers: {:?}", id, n, l, text),
                            ));
                        }
                    }
                }
                // interim responses: exactly one 100 per qualifying header block the server has read
                let got100 = cl.resps.iter().filter(|r| r.code == 100 && r.body.is_empty()).count();
                if got100 != cl.exp_100 {
                    return Err(self.v(
                        "wrong-number-of-100s",
                        format!("client {} received {} 100-continue response(s); {} header block(s) it sent qualify for one", id, got100, cl.exp_100),
                    ));
                }
                let want: Vec<String> = cl.responded.iter().map(|r| r.0.clone()).filter(|t| t != "untagged").collect();
                if cl.got_tags != want {
                    return Err(self.v(
                        "response-not-delivered",
                        format!("client {} stays connected; the application answered {:?} but the client received {:?}", id, want, cl.got_tags),
                    ));
                }
            }
        }
        if self.flags.well_behaved && !self.out_of_scope && self.all_clean() && self.readable() {
            return Err(self.v("not-quiescent", "no client input, unsent output or unanswered request remains, yet the epoll descriptor still signals".into()));
        }
        if self.flags.capacity || self.flags.release {
            // leak freedom / release: no descriptor may remain for a client that fully closed and whose
            // yielded requests were all answered (the drain answered everything)
            let fds = world::with(|w| w.server_fds());
            let mut streams = 0;
            for (fd, obj) in &fds {
                if let FdObj::Stream(conn) = obj {
                    streams += 1;
                    let cid = self.conn_to_client.get(*conn).cloned().unwrap_or(usize::MAX);
                    if let Some(cl) = self.clients.get(&cid) {
                        if cl.srv_write_failed && cl.accept == Accept::Served && !cl.closed {
                            let class = if cl.failed_in_flush_while_owed {
                                "unwritable-connection-not-released:closed-by-flush-while-answers-were-owed"
                            } else {
                                "unwritable-connection-not-released"
                            };
                            return Err(self.v(
                                class,
                                format!(
                                    "a write to client {} failed (it can no longer be written to) and everything yielded from it was answered, but the server still holds descriptor {}",
                                    cid, fd
                                ),
                            ));
                        }
                        if cl.server_saw_hangup && !cl.closed && cl.accept == Accept::Served {
                            return Err(self.v(
                                "hung-up-connection-not-released",
                                format!(
                                    "the server was told that client {} hung up (half-close) and everything yielded from it was answered, but it still holds descriptor {}",
                                    cid, fd
                                ),
                            ));
                        }
                        if cl.closed {
                            return Err(self.v(
                                "connection-not-released",
                                format!("client {} closed and everything yielded from it was answered, but the server still holds descriptor {}", cid, fd),
                            ));
                        }
                    }
                }
            }
            let others = fds.len() - streams;
            let expect_others = 2 + if self.kill.is_some() { 2 } else { 0 } + self.kill_extra.is_some() as usize;
            if others != expect_others {
                return Err(self.v("descriptor-accounting", format!("{} non-connection descriptors in the server process, expected {}", others, expect_others)));
            }
            let open_clients = self.clients.values().filter(|c| !c.closed && c.accept == Accept::Served).count();
            if streams > open_clients {
                return Err(self.v("descriptor-leak", format!("{} connection descriptors held for {} clients that are still open", streams, open_clients)));
            }
            // descriptors a client passed along with its input: once the client is gone, everything
            // yielded from it has been answered (the requests were consumed) and its connection has been
            // released, nothing inside the server may keep them open - the read end of each pipe reports
            // end-of-file (all write ends closed)
            let held: Vec<usize> = fds.iter().filter_map(|(_, o)| if let FdObj::Stream(c) = o { self.conn_to_client.get(*c).cloned() } else { None }).collect();
            for (id, cl) in self.clients.iter() {
                if cl.pipes.is_empty() || !cl.closed || held.contains(id) {
                    continue;
                }
                // a forked child that inherited the connection keeps the socket - and whatever is still
                // queued in it - alive; that is the kernel's doing, not the server's
                if world::with(|w| w.conns[cl.conn].extra_refs > 0) {
                    continue;
                }
                st.probe("descriptors_passed_by_a_client_that_left");
                for (k, p) in cl.pipes.iter().enumerate() {
                    if !crate::fds::pipe_eof(p.rd) {
                        return Err(self.v(
                            "passed-descriptor-kept-open",
                            format!("client {} passed {} descriptor(s), left, was answered and released - yet descriptor #{} it passed is still open somewhere in the server", id, cl.pipes.len(), k),
                        ));
                    }
                }
            }
        }
        Ok(())
    }

    pub fn finish_probes(&self, st: &mut Stats) {
        if self.max_open >= MAX_CONN {
            st.probe("capacity_reached");
        }
        if self.big_response_delivered {
            st.probe("response_larger_than_socket_buffer_delivered");
        }
        if self.flush_then_poll {
            st.probe("flush_followed_by_poll");
        }
        if world::with(|w| w.fd_reuse) > 0 {
            st.probe("fd_number_reused");
            st.fault("F-fdreuse");
        }
        if self.overlapping {
            st.probe("overlapping_requests_of_2_clients");
        }
        if self.err400_seen > 0 {
            st.probe("client_received_400");
        }
    }
}
