//! Real descriptors for the descriptor-passing checks: pipes whose write ends are handed to the
//! library; identity is judged by inode, closure by EOF on the read end.

use std::os::unix::io::RawFd;
use std::sync::RwLock;

/// Runs that hand descriptor NUMBER 0 to the library need the process-wide descriptor table for
/// themselves (lowest-free allocation is global): they take this lock exclusively, all other
/// descriptor-creating runs share it. Keeps such runs exactly replayable.
pub static FD0_LOCK: RwLock<()> = RwLock::new(());

pub struct Pipe {
    pub rd: RawFd,
    pub ino: u64,
}

impl Drop for Pipe {
    fn drop(&mut self) {
        // SAFETY: the read end is owned by this value.
        unsafe { libc::close(self.rd) };
    }
}

pub fn make_pipe() -> Result<(Pipe, RawFd), String> {
    let mut fds = [0 as RawFd; 2];
    // SAFETY: pipe2 with a valid out array.
    let r = unsafe { libc::pipe2(fds.as_mut_ptr(), libc::O_CLOEXEC | libc::O_NONBLOCK) };
    if r != 0 {
        return Err(format!("pipe2 failed: {}", std::io::Error::last_os_error()));
    }
    // keep descriptor number 0 (when the process has it free) for descriptors that are handed
    // to the library, not for the read ends the harness keeps
    if fds[0] == 0 {
        // SAFETY: plain fcntl/close on a descriptor we own.
        unsafe {
            let hi = libc::fcntl(0, libc::F_DUPFD_CLOEXEC, 3);
            if hi > 0 {
                libc::close(0);
                fds[0] = hi;
            }
        }
    }
    // the write end can land on number 0 as well (another thread released 0 between the two
    // allocations inside pipe2): only runs that hold the table exclusively may pass number 0
    if fds[1] == 0 {
        // SAFETY: plain fcntl/close on a descriptor we own.
        unsafe {
            let hi = libc::fcntl(0, libc::F_DUPFD_CLOEXEC, 3);
            if hi > 0 {
                libc::close(0);
                fds[1] = hi;
            }
        }
    }
    Ok((Pipe { rd: fds[0], ino: ino_of(fds[0]) }, fds[1]))
}

pub fn ino_of(fd: RawFd) -> u64 {
    // SAFETY: fstat on a descriptor with a zeroed out struct.
    unsafe {
        let mut st: libc::stat = std::mem::zeroed();
        if libc::fstat(fd, &mut st) != 0 {
            return 0;
        }
        st.st_ino as u64
    }
}

/// true = every write end of the pipe has been closed
pub fn pipe_eof(rd: RawFd) -> bool {
    let mut b = [0u8; 1];
    // SAFETY: read into a valid buffer.
    let r = unsafe { libc::read(rd, b.as_mut_ptr() as *mut libc::c_void, 1) };
    r == 0
}


/// End of a run that had descriptor number 0 for itself: whatever sits on 0 now (a descriptor the
/// library leaked, or nothing) is replaced by a placeholder, so that no later run is handed 0.
pub fn reoccupy_fd0() {
    // SAFETY: called only while FD0_LOCK is held exclusively; plain close/open.
    unsafe {
        libc::close(0);
        let fd = libc::open(b"/dev/null\0".as_ptr() as *const libc::c_char, libc::O_RDONLY | libc::O_CLOEXEC);
        if fd > 0 {
            libc::dup2(fd, 0);
            libc::close(fd);
        }
    }
}
