//! Real descriptors for the descriptor-passing checks: pipes whose write ends are handed to the
//! library; identity is judged by inode, closure by EOF on the read end.

use std::os::unix::io::RawFd;

pub struct Pipe {
    pub rd: RawFd,
    pub ino: u64,
}

impl Drop for Pipe {
    fn drop(&mut self) {
        // SAFETY: the read end is owned by this value.
        unsafe { libc::close(self.rd) };
    }
}

pub fn make_pipe() -> Result<(Pipe, RawFd), String> {
    let mut fds = [0 as RawFd; 2];
    // SAFETY: pipe2 with a valid out array.
    let r = unsafe { libc::pipe2(fds.as_mut_ptr(), libc::O_CLOEXEC | libc::O_NONBLOCK) };
    if r != 0 {
        return Err(format!("pipe2 failed: {}", std::io::Error::last_os_error()));
    }
    Ok((Pipe { rd: fds[0], ino: ino_of(fds[0]) }, fds[1]))
}

pub fn ino_of(fd: RawFd) -> u64 {
    // SAFETY: fstat on a descriptor with a zeroed out struct.
    unsafe {
        let mut st: libc::stat = std::mem::zeroed();
        if libc::fstat(fd, &mut st) != 0 {
            return 0;
        }
        st.st_ino as u64
    }
}

/// true = every write end of the pipe has been closed
pub fn pipe_eof(rd: RawFd) -> bool {
    let mut b = [0u8; 1];
    // SAFETY: read into a valid buffer.
    let r = unsafe { libc::read(rd, b.as_mut_ptr() as *mut libc::c_void, 1) };
    r == 0
}

