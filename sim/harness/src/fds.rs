//! Real descriptors for the descriptor-passing checks: pipes whose write ends are handed to the
//! library; identity is judged by inode, closure by EOF on the read end.

use std::cell::Cell;
use std::os::unix::io::RawFd;
use std::sync::atomic::{AtomicUsize, Ordering};
use std::sync::RwLock;

// Descriptors that are handed to the library get their NUMBERS from a range that belongs to the
// executing thread alone (lowest free number at or above the thread's base). Lowest-free allocation
// is process-wide, so without this the numbers - and with them the behaviour of a library that
// (wrongly) depends on descriptor numbers - would depend on what other worker threads do, and such
// a violation would not replay. With it the numbers are a function of the run alone, up to a
// constant offset (the base differs between threads; order relations are preserved).
thread_local! {
    static REGION_BASE: Cell<RawFd> = const { Cell::new(-1) };
}
static NEXT_REGION: AtomicUsize = AtomicUsize::new(0);
const REGIONS: usize = 16;

fn region_base() -> RawFd {
    REGION_BASE.with(|b| {
        if b.get() < 0 {
            // SAFETY: plain getrlimit.
            let limit = unsafe {
                let mut rl: libc::rlimit = std::mem::zeroed();
                if libc::getrlimit(libc::RLIMIT_NOFILE, &mut rl) == 0 {
                    rl.rlim_cur as i64
                } else {
                    1024
                }
            };
            let k = NEXT_REGION.fetch_add(1, Ordering::Relaxed) % REGIONS;
            // the first 1000 numbers are left to everything else in the process
            let span = ((limit - 1000).max(0) / REGIONS as i64) as RawFd;
            b.set(if span >= 600 { 1000 + span * k as RawFd } else { 0 });
        }
        b.get()
    })
}

/// Move a descriptor to the lowest free number of the calling thread's range (the original
/// number is closed). If the process limit leaves no room for ranges the descriptor is returned
/// unchanged.
pub fn into_region(fd: RawFd) -> RawFd {
    let base = region_base();
    if base <= 0 || fd < 0 {
        return fd;
    }
    // SAFETY: plain fcntl/close on a descriptor we own.
    unsafe {
        let n = libc::fcntl(fd, libc::F_DUPFD_CLOEXEC, base);
        if n >= 0 {
            libc::close(fd);
            n
        } else {
            fd
        }
    }
}

/// a descriptor that only occupies a number in the calling thread's range
pub fn open_placeholder() -> Option<RawFd> {
    // SAFETY: plain open of /dev/null.
    let fd = unsafe { libc::open(b"/dev/null\0".as_ptr() as *const libc::c_char, libc::O_RDONLY | libc::O_CLOEXEC) };
    if fd < 0 {
        None
    } else {
        Some(into_region(fd))
    }
}

/// Runs that hand descriptor NUMBER 0 to the library need the process-wide descriptor table for
/// themselves (lowest-free allocation is global): they take this lock exclusively, all other
/// descriptor-creating runs share it. Keeps such runs exactly replayable.
pub static FD0_LOCK: RwLock<()> = RwLock::new(());

pub struct Pipe {
    pub rd: RawFd,
    pub ino: u64,
}

impl Drop for Pipe {
    fn drop(&mut self) {
        // SAFETY: the read end is owned by this value.
        unsafe { libc::close(self.rd) };
    }
}

pub fn make_pipe() -> Result<(Pipe, RawFd), String> {
    let mut fds = [0 as RawFd; 2];
    // SAFETY: pipe2 with a valid out array.
    let r = unsafe { libc::pipe2(fds.as_mut_ptr(), libc::O_CLOEXEC | libc::O_NONBLOCK) };
    if r != 0 {
        return Err(format!("pipe2 failed: {}", std::io::Error::last_os_error()));
    }
    // keep descriptor number 0 (when the process has it free) for descriptors that are handed
    // to the library, not for the read ends the harness keeps
    if fds[0] == 0 {
        // SAFETY: plain fcntl/close on a descriptor we own.
        unsafe {
            let hi = libc::fcntl(0, libc::F_DUPFD_CLOEXEC, 3);
            if hi > 0 {
                libc::close(0);
                fds[0] = hi;
            }
        }
    }
    // the write end can land on number 0 as well (another thread released 0 between the two
    // allocations inside pipe2): only runs that hold the table exclusively may pass number 0
    if fds[1] == 0 {
        // SAFETY: plain fcntl/close on a descriptor we own.
        unsafe {
            let hi = libc::fcntl(0, libc::F_DUPFD_CLOEXEC, 3);
            if hi > 0 {
                libc::close(0);
                fds[1] = hi;
            }
        }
    }
    Ok((Pipe { rd: fds[0], ino: ino_of(fds[0]) }, fds[1]))
}

pub fn ino_of(fd: RawFd) -> u64 {
    // SAFETY: fstat on a descriptor with a zeroed out struct.
    unsafe {
        let mut st: libc::stat = std::mem::zeroed();
        if libc::fstat(fd, &mut st) != 0 {
            return 0;
        }
        st.st_ino as u64
    }
}

/// true = every write end of the pipe has been closed
pub fn pipe_eof(rd: RawFd) -> bool {
    let mut b = [0u8; 1];
    // SAFETY: read into a valid buffer.
    let r = unsafe { libc::read(rd, b.as_mut_ptr() as *mut libc::c_void, 1) };
    r == 0
}


/// End of a run that had descriptor number 0 for itself: whatever sits on 0 now (a descriptor the
/// library leaked, or nothing) is replaced by a placeholder, so that no later run is handed 0.
pub fn reoccupy_fd0() {
    // SAFETY: called only while FD0_LOCK is held exclusively; plain close/open.
    unsafe {
        libc::close(0);
        let fd = libc::open(b"/dev/null\0".as_ptr() as *const libc::c_char, libc::O_RDONLY | libc::O_CLOEXEC);
        if fd > 0 {
            libc::dup2(fd, 0);
            libc::close(fd);
        }
    }
}
