//! Engine C, lean variant: one long-lived client pipelines a very large number of minimal
//! requests while the application answers late (in bursts, or only at the very end). The full
//! server engine keeps per-request bookkeeping that is quadratic in the history; this one only
//! counts, so histories with tens of thousands of unanswered requests cost milliseconds. It
//! exists for state that drifts or wraps only after a long history (in-flight counters, cursors).
//!
//! Oracles (C08 / C09 wording): requests() never fails and is called only when the epoll
//! descriptor is readable; every request is yielded exactly once, in order; respond() never
//! fails; after everything is answered and the client has read everything, the client holds
//! exactly the expected bytes, and the epoll descriptor is quiet.

use std::os::unix::io::AsRawFd;
use std::panic::{catch_unwind, AssertUnwindSafe};

use micro_http::{Body, HttpServer, Response, ServerError, ServerRequest, StatusCode, Version};
use simkernel::world::{self, Config, OutThreshold};

use crate::core::{RunOut, Stats, Violation};
use crate::json::{self, J};
use crate::obs::panic_msg;
use crate::rng::{Rng, Sig};

const SOCK_PATH: &str = "/sim/api.sock";

#[derive(Clone, Debug)]
pub struct FloodCase {
    /// number of requests the client pipelines
    pub n: usize,
    /// the application answers whatever is outstanding once this many requests are unanswered
    /// (0 = only when the client has sent everything and all of it has been yielded)
    pub answer_at: usize,
    /// answer through enqueue_responses (one batch) instead of respond() one by one
    pub batch: bool,
    /// bytes the client sends per step
    pub send_chunk: usize,
    pub cap_c2s: usize,
    pub cap_s2c: usize,
    /// > 0: "turnstile" mode instead - this many short-lived clients one after another, each
    /// connecting, sending one request, receiving its answer and leaving (state that accumulates
    /// per accepted connection: serial numbers, generation counters, slots)
    pub cycles: usize,
    /// > 0: "storm" mode - the server is full (10 resident connections) and this many further clients
    /// arrive, `burst` at a time, each to be refused with the 503 text; afterwards simulated time
    /// passes, one more client must still get its 503, the residents must still be served, and a
    /// released slot must admit a newcomer (state that accumulates per refusal)
    pub storm: usize,
    pub burst: usize,
}

impl FloodCase {
    pub fn to_json(&self) -> J {
        json::obj(vec![
            ("engine", json::s("C-flood")),
            ("n", json::u(self.n)),
            ("answer_at", json::u(self.answer_at)),
            ("batch", J::Bool(self.batch)),
            ("send_chunk", json::u(self.send_chunk)),
            ("cap_c2s", json::u(self.cap_c2s)),
            ("cap_s2c", json::u(self.cap_s2c)),
            ("cycles", json::u(self.cycles)),
            ("storm", json::u(self.storm)),
            ("burst", json::u(self.burst)),
        ])
    }
    pub fn from_json(j: &J) -> Result<FloodCase, String> {
        Ok(FloodCase {
            n: j.req_usize("n")?,
            answer_at: j.req_usize("answer_at")?,
            batch: j.get("batch").and_then(|x| x.bool()).unwrap_or(false),
            send_chunk: j.req_usize("send_chunk")?.max(1),
            cap_c2s: j.req_usize("cap_c2s")?.max(64),
            cap_s2c: j.req_usize("cap_s2c")?.max(256),
            cycles: j.get("cycles").and_then(|x| x.usize()).unwrap_or(0),
            storm: j.get("storm").and_then(|x| x.usize()).unwrap_or(0),
            burst: j.get("burst").and_then(|x| x.usize()).unwrap_or(1).max(1),
        })
    }
}

pub fn is_flood(j: &J) -> bool {
    j.get("engine").and_then(|x| x.str()) == Some("C-flood")
}

pub fn gen_turnstile(rng: &mut Rng) -> J {
    FloodCase {
        n: 0,
        answer_at: 0,
        batch: rng.chance(1, 2),
        send_chunk: 4096,
        cap_c2s: 212_992,
        cap_s2c: 212_992,
        cycles: match rng.below(3) {
            0 => rng.range(250, 600),
            1 => rng.range(65_530, 66_000),
            _ => rng.range(1000, 3000),
        },
        storm: 0,
        burst: 1,
    }
    .to_json()
}

pub fn gen_storm(rng: &mut Rng) -> J {
    FloodCase {
        n: 0,
        answer_at: 0,
        batch: false,
        send_chunk: 4096,
        cap_c2s: 212_992,
        cap_s2c: 212_992,
        cycles: 0,
        storm: match rng.below(3) {
            0 => rng.range(260, 600),
            1 => rng.range(1_030, 3_000),
            _ => rng.range(65_540, 66_000),
        },
        burst: *rng.pick(&[1usize, 1, 2, 7, 40]),
    }
    .to_json()
}

pub fn gen_flood(rng: &mut Rng) -> J {
    // thresholds at which a counter narrowed to 8 or 16 bits would wrap
    let n = match rng.below(4) {
        0 => rng.range(250, 600),
        1 => rng.range(65_530, 66_200),
        2 => rng.range(1000, 5000),
        _ => rng.range(65_536, 70_000),
    };
    FloodCase {
        n,
        answer_at: match rng.below(3) {
            0 => 0,
            1 => rng.range(200, 400),
            _ => 0,
        },
        batch: rng.chance(1, 2),
        send_chunk: *rng.pick(&[1000usize, 4096, 65536]),
        cap_c2s: *rng.pick(&[4096usize, 212_992]),
        cap_s2c: *rng.pick(&[4096usize, 212_992]),
        cycles: 0,
        storm: 0,
        burst: 1,
    }
    .to_json()
}

pub fn shrink_flood(j: &J) -> Vec<J> {
    let c = match FloodCase::from_json(j) {
        Ok(c) => c,
        Err(_) => return vec![],
    };
    let mut out = Vec::new();
    for k in [c.cycles / 2, c.cycles * 3 / 4, c.cycles.saturating_sub(100), c.cycles.saturating_sub(10), c.cycles.saturating_sub(1)] {
        if k >= 1 && k < c.cycles {
            let mut d = c.clone();
            d.cycles = k;
            out.push(d.to_json());
        }
    }
    for k in [c.storm / 2, c.storm * 3 / 4, c.storm.saturating_sub(100), c.storm.saturating_sub(10), c.storm.saturating_sub(1)] {
        if k >= 1 && k < c.storm {
            let mut d = c.clone();
            d.storm = k;
            out.push(d.to_json());
        }
    }
    if c.burst > 1 {
        let mut d = c.clone();
        d.burst = 1;
        out.push(d.to_json());
    }
    for n in [c.n / 2, c.n * 3 / 4, c.n.saturating_sub(100), c.n.saturating_sub(10), c.n.saturating_sub(1)] {
        if n >= 1 && n < c.n {
            let mut d = c.clone();
            d.n = n;
            out.push(d.to_json());
        }
    }
    if c.batch {
        let mut d = c.clone();
        d.batch = false;
        out.push(d.to_json());
    }
    if c.answer_at != 0 {
        let mut d = c.clone();
        d.answer_at = 0;
        out.push(d.to_json());
    }
    out
}

fn request_bytes(k: usize) -> Vec<u8> {
    format!("GET /f{} HTTP/1.1\r\n\r\n", k).into_bytes()
}

fn response_for(k: usize) -> (Response, Vec<u8>) {
    let body = format!("f{}", k).into_bytes();
    let mut r = Response::new(Version::Http11, StatusCode::OK);
    r.set_body(Body::new(body.clone()));
    let mut spec = crate::model::RespSpec::new(1, 200);
    spec.set_body(body);
    (r, crate::model::serialize_response(&spec))
}

pub fn exec_flood(case: &J, prop: &'static str, st: &mut Stats) -> Result<RunOut, String> {
    let case = FloodCase::from_json(case)?;
    let mut sig = Sig::new();
    let mut step = 0usize;
    macro_rules! viol {
        ($class:expr, $detail:expr) => {
            return Ok(RunOut {
                violation: Some(Violation::new(&format!("{}:{}", prop, $class), step, $detail)),
                nontrivial: true,
                sig: sig.get(),
                trace_hash: sig.get(),
            })
        };
    }
    world::reset(Config { cap_c2s: case.cap_c2s, cap_s2c: case.cap_s2c, out_threshold: OutThreshold::AnySpace, log: false, first_fd: 3, fd_stride: 1 });
    if case.cycles > 0 {
        return exec_turnstile(&case, prop, st);
    }
    if case.storm > 0 {
        return exec_storm(&case, prop, st);
    }
    let built = catch_unwind(AssertUnwindSafe(|| -> Result<HttpServer, String> {
        let mut s = HttpServer::new(SOCK_PATH).map_err(|e| format!("HttpServer::new: {}", e))?;
        s.start_server().map_err(|e| format!("start_server: {}", e))?;
        Ok(s)
    }));
    let mut server = match built {
        Ok(Ok(s)) => s,
        Ok(Err(e)) => viol!("setup", e),
        Err(p) => viol!("panic", format!("server setup panicked: {}", panic_msg(p))),
    };
    let epfd = server.epoll().as_raw_fd();
    let conn = match world::with(|w| w.client_connect(SOCK_PATH)) {
        Ok(c) => c,
        Err(e) => return Err(format!("client connect failed: errno {}", e)),
    };
    // the whole script
    let mut script: Vec<u8> = Vec::with_capacity(case.n * 24);
    for k in 0..case.n {
        script.extend(request_bytes(k));
    }
    let mut off = 0usize; // bytes the client has sent
    let mut yielded = 0usize; // requests handed to the application
    let mut answered = 0usize;
    let mut outstanding: Vec<ServerRequest> = Vec::new();
    let mut expected_out: Vec<u8> = Vec::new();
    let mut recvd: Vec<u8> = Vec::new();
    let mut max_unanswered = 0usize;
    let mut guard = 0u64;
    loop {
        guard += 1;
        if guard > 40_000_000 {
            viol!("no-progress", "the history does not come to an end".to_string());
        }
        step += 1;
        st.steps += 1;
        let mut progressed = false;
        // client: send as much as the socket takes
        if off < script.len() {
            let end = (off + case.send_chunk).min(script.len());
            match world::with(|w| w.client_send(conn, &script[off..end])) {
                Ok(k) => {
                    if k > 0 {
                        progressed = true;
                    }
                    off += k;
                }
                Err(e) if e == libc::EAGAIN => {}
                Err(e) => viol!("client-send-failed", format!("the client's send failed with errno {} although it behaves well", e)),
            }
        }
        // server: poll while the epoll descriptor is readable
        let mut polls = 0;
        while world::with(|w| w.epoll_readable(epfd)) {
            polls += 1;
            if polls > 100_000 {
                viol!("spin", "the epoll descriptor stays readable although requests() is called again and again".to_string());
            }
            st.lib_calls += 1;
            let r = catch_unwind(AssertUnwindSafe(|| server.requests()));
            match r {
                Err(p) => viol!("panic", format!("requests() panicked: {}", panic_msg(p))),
                Ok(Err(ServerError::ShutdownEvent)) => viol!("spurious-shutdown", "requests() reported a shutdown event; there is no kill switch".to_string()),
                Ok(Err(e)) => viol!(
                    "poll-err",
                    format!("requests() returned Err({}) after {} request(s) had been yielded, {} unanswered", e, yielded, outstanding.len())
                ),
                Ok(Ok(reqs)) => {
                    for r in reqs {
                        let want = format!("/f{}", yielded);
                        let got = r.inner().uri().get_abs_path().to_string();
                        if got != want {
                            viol!("yield-mismatch", format!("request #{} yielded with path {:?}, expected {:?}", yielded, got, want));
                        }
                        yielded += 1;
                        outstanding.push(r);
                        progressed = true;
                    }
                }
            }
            progressed = true;
            max_unanswered = max_unanswered.max(outstanding.len());
            // the application answers in bursts
            if case.answer_at != 0 && outstanding.len() >= case.answer_at {
                break;
            }
        }
        let all_yielded = yielded == case.n;
        let answer_now = !outstanding.is_empty() && ((case.answer_at != 0 && outstanding.len() >= case.answer_at) || (off == script.len() && all_yielded));
        if answer_now {
            progressed = true;
            let mut batch = Vec::new();
            for r in outstanding.drain(..) {
                let (resp, bytes) = response_for(answered);
                answered += 1;
                expected_out.extend_from_slice(&bytes);
                let mut slot = Some(resp);
                let sr = r.process(|_| slot.take().expect("process calls its closure once"));
                if case.batch {
                    batch.push(sr);
                } else {
                    st.lib_calls += 1;
                    match catch_unwind(AssertUnwindSafe(|| server.respond(sr))) {
                        Err(p) => viol!("panic", format!("respond() panicked: {}", panic_msg(p))),
                        Ok(Err(e)) => viol!("respond-err", format!("respond() for request #{} failed: {}", answered - 1, e)),
                        Ok(Ok(())) => {}
                    }
                }
            }
            if case.batch {
                st.lib_calls += 1;
                match catch_unwind(AssertUnwindSafe(|| server.enqueue_responses(batch))) {
                    Err(p) => viol!("panic", format!("enqueue_responses() panicked: {}", panic_msg(p))),
                    Ok(Err(e)) => viol!("respond-err", format!("enqueue_responses() failed: {}", e)),
                    Ok(Ok(())) => {}
                }
            }
        }
        // client: read what is there
        loop {
            match world::with(|w| w.client_recv(conn, 1 << 20)) {
                Ok(b) if b.is_empty() => viol!("client-saw-eof", "the server closed the connection of a well-behaved client".to_string()),
                Ok(b) => {
                    recvd.extend_from_slice(&b);
                    progressed = true;
                }
                Err(e) if e == libc::EAGAIN => break,
                Err(e) => viol!("client-recv-failed", format!("the client's recv failed with errno {}", e)),
            }
        }
        if off == script.len() && all_yielded && outstanding.is_empty() && recvd.len() >= expected_out.len() {
            break;
        }
        if !progressed && !world::with(|w| w.epoll_readable(epfd)) {
            viol!(
                "lost-wakeup",
                format!(
                    "nothing can move: client sent {} of {} bytes, {} of {} request(s) yielded, {} unanswered, client received {} of {} byte(s); the epoll descriptor is not readable",
                    off,
                    script.len(),
                    yielded,
                    case.n,
                    outstanding.len(),
                    recvd.len(),
                    expected_out.len()
                )
            );
        }
    }
    // what the client holds
    if recvd != expected_out {
        let k = recvd.iter().zip(expected_out.iter()).position(|(a, b)| a != b).unwrap_or(recvd.len().min(expected_out.len()));
        viol!(
            "output-stream-differs",
            format!("received bytes diverge from the expected output stream at offset {} (received {}, expected {})", k, recvd.len(), expected_out.len())
        );
    }
    if world::with(|w| w.epoll_readable(epfd)) {
        // one more poll may be needed to switch interest back; it must then go quiet
        let mut k = 0;
        while world::with(|w| w.epoll_readable(epfd)) {
            k += 1;
            if k > 8 {
                viol!("spin", "nothing is outstanding but the epoll descriptor keeps signalling".to_string());
            }
            match catch_unwind(AssertUnwindSafe(|| server.requests())) {
                Err(p) => viol!("panic", format!("requests() panicked: {}", panic_msg(p))),
                Ok(Err(e)) => viol!("poll-err", format!("requests() returned Err({}) with nothing outstanding", e)),
                Ok(Ok(r)) => {
                    if !r.is_empty() {
                        viol!("yield-mismatch", format!("{} request(s) yielded after all {} had been", r.len(), case.n));
                    }
                }
            }
        }
    }
    st.probe("flood_history");
    if max_unanswered >= 256 {
        st.probe("flood_256_or_more_unanswered_at_once");
    }
    if max_unanswered >= 65_536 {
        st.probe("flood_65536_or_more_unanswered_at_once");
    }
    sig.u(case.n as u64);
    sig.u(max_unanswered as u64);
    sig.u(case.batch as u64);
    drop(server);
    Ok(RunOut { violation: None, nontrivial: true, sig: sig.get(), trace_hash: sig.get() })
}


/// Turnstile mode: `cycles` short-lived clients one after another on one server.
fn exec_turnstile(case: &FloodCase, prop: &'static str, st: &mut Stats) -> Result<RunOut, String> {
    let mut sig = Sig::new();
    let mut step = 0usize;
    macro_rules! viol {
        ($class:expr, $detail:expr) => {
            return Ok(RunOut {
                violation: Some(Violation::new(&format!("{}:{}", prop, $class), step, $detail)),
                nontrivial: true,
                sig: sig.get(),
                trace_hash: sig.get(),
            })
        };
    }
    let built = catch_unwind(AssertUnwindSafe(|| -> Result<HttpServer, String> {
        let mut s = HttpServer::new(SOCK_PATH).map_err(|e| format!("HttpServer::new: {}", e))?;
        s.start_server().map_err(|e| format!("start_server: {}", e))?;
        Ok(s)
    }));
    let mut server = match built {
        Ok(Ok(s)) => s,
        Ok(Err(e)) => viol!("setup", e),
        Err(p) => viol!("panic", format!("server setup panicked: {}", panic_msg(p))),
    };
    let epfd = server.epoll().as_raw_fd();
    let base_fds = world::with(|w| w.server_fds().len());
    for k in 0..case.cycles {
        step = k;
        st.steps += 1;
        let conn = match world::with(|w| w.client_connect(SOCK_PATH)) {
            Ok(c) => c,
            Err(e) => return Err(format!("client connect failed: errno {}", e)),
        };
        let req = request_bytes(k);
        match world::with(|w| w.client_send(conn, &req)) {
            Ok(n) if n == req.len() => {}
            other => return Err(format!("client send: {:?}", other)),
        }
        let (resp, want) = response_for(k);
        let mut resp = Some(resp);
        let mut got: Vec<u8> = Vec::new();
        let mut yielded = false;
        let mut polls = 0;
        // serve this client to completion
        loop {
            polls += 1;
            if polls > 64 {
                viol!("spin", format!("client #{}: 64 polls without completing one request/response round trip", k));
            }
            if !world::with(|w| w.epoll_readable(epfd)) {
                viol!(
                    "lost-wakeup",
                    format!(
                        "client #{} (the {}th connection accepted by this server): request yielded = {}, {} of {} response byte(s) received, and the epoll descriptor is not readable",
                        k,
                        k + 1,
                        yielded,
                        got.len(),
                        want.len()
                    )
                );
            }
            st.lib_calls += 1;
            match catch_unwind(AssertUnwindSafe(|| server.requests())) {
                Err(p) => viol!("panic", format!("requests() panicked: {}", panic_msg(p))),
                Ok(Err(e)) => viol!("poll-err", format!("requests() returned Err({}) while serving client #{}", e, k)),
                Ok(Ok(reqs)) => {
                    for r in reqs {
                        let path = r.inner().uri().get_abs_path().to_string();
                        if yielded || path != format!("/f{}", k) {
                            viol!("yield-mismatch", format!("client #{}: unexpected request {:?} yielded", k, path));
                        }
                        yielded = true;
                        let mut slot = resp.take();
                        let sr = r.process(|_| slot.take().expect("one response per request"));
                        st.lib_calls += 1;
                        let rr = if case.batch {
                            catch_unwind(AssertUnwindSafe(|| server.enqueue_responses(vec![sr])))
                        } else {
                            catch_unwind(AssertUnwindSafe(|| server.respond(sr)))
                        };
                        match rr {
                            Err(p) => viol!("panic", format!("respond() panicked: {}", panic_msg(p))),
                            Ok(Err(e)) => viol!("respond-err", format!("respond() for client #{} failed: {}", k, e)),
                            Ok(Ok(())) => {}
                        }
                    }
                }
            }
            loop {
                match world::with(|w| w.client_recv(conn, 1 << 16)) {
                    Ok(b) if b.is_empty() => viol!("client-saw-eof", format!("the server closed the connection of client #{} before answering", k)),
                    Ok(b) => got.extend_from_slice(&b),
                    Err(e) if e == libc::EAGAIN => break,
                    Err(e) => viol!("client-recv-failed", format!("client #{}: recv failed with errno {}", k, e)),
                }
            }
            if got.len() >= want.len() {
                break;
            }
        }
        if got != want {
            viol!("output-stream-differs", format!("client #{} received {} byte(s) that differ from the response the application supplied ({} bytes)", k, got.len(), want.len()));
        }
        world::with(|w| w.client_close(conn));
        // the server notices the hang-up and releases the connection
        let mut polls = 0;
        while world::with(|w| w.epoll_readable(epfd)) {
            polls += 1;
            if polls > 16 {
                viol!("spin", format!("after client #{} left, the epoll descriptor keeps signalling", k));
            }
            match catch_unwind(AssertUnwindSafe(|| server.requests())) {
                Err(p) => viol!("panic", format!("requests() panicked: {}", panic_msg(p))),
                Ok(Err(e)) => viol!("poll-err", format!("requests() returned Err({}) after client #{} left", e, k)),
                Ok(Ok(r)) => {
                    if !r.is_empty() {
                        viol!("yield-mismatch", format!("{} request(s) yielded after client #{} left", r.len(), k));
                    }
                }
            }
        }
        let now = world::with(|w| w.server_fds().len());
        if now != base_fds {
            viol!("connection-not-released", format!("after client #{} left and was answered the server process holds {} descriptors, {} before it connected", k, now, base_fds));
        }
    }
    st.probe("turnstile_history");
    if case.cycles >= 65_536 {
        st.probe("turnstile_65536_or_more_connections_accepted");
    }
    sig.u(case.cycles as u64);
    sig.u(case.batch as u64);
    drop(server);
    Ok(RunOut { violation: None, nontrivial: true, sig: sig.get(), trace_hash: sig.get() })
}

fn exec_storm(case: &FloodCase, prop: &'static str, st: &mut Stats) -> Result<RunOut, String> {
    let mut sig = Sig::new();
    let mut step = 0usize;
    macro_rules! viol {
        ($class:expr, $detail:expr) => {
            return Ok(RunOut {
                violation: Some(Violation::new(&format!("{}:{}", prop, $class), step, $detail)),
                nontrivial: true,
                sig: sig.get(),
                trace_hash: sig.get(),
            })
        };
    }
    let built = catch_unwind(AssertUnwindSafe(|| -> Result<HttpServer, String> {
        let mut s = HttpServer::new(SOCK_PATH).map_err(|e| format!("HttpServer::new: {}", e))?;
        s.start_server().map_err(|e| format!("start_server: {}", e))?;
        Ok(s)
    }));
    let mut server = match built {
        Ok(Ok(s)) => s,
        Ok(Err(e)) => viol!("setup", e),
        Err(p) => viol!("panic", format!("server setup panicked: {}", panic_msg(p))),
    };
    let epfd = server.epoll().as_raw_fd();
    // poll while the epoll descriptor is readable (bounded); returns the requests yielded
    macro_rules! settle {
        ($what:expr) => {{
            let mut got: Vec<ServerRequest> = Vec::new();
            let mut polls = 0;
            while world::with(|w| w.epoll_readable(epfd)) {
                polls += 1;
                if polls > 200 {
                    viol!("spin", format!("{}: the epoll descriptor keeps signalling after 200 polls", $what));
                }
                st.lib_calls += 1;
                match catch_unwind(AssertUnwindSafe(|| server.requests())) {
                    Err(p) => viol!("panic", format!("requests() panicked ({}): {}", $what, panic_msg(p))),
                    Ok(Err(e)) => viol!("poll-err", format!("requests() returned Err({}) ({})", e, $what)),
                    Ok(Ok(r)) => got.extend(r),
                }
            }
            got
        }};
    }
    let mut residents = Vec::new();
    for _ in 0..crate::engc::MAX_CONN {
        let c = match world::with(|w| w.client_connect(SOCK_PATH)) {
            Ok(c) => c,
            Err(e) => return Err(format!("client connect failed: errno {}", e)),
        };
        residents.push(c);
        let r = settle!("accepting a resident");
        if !r.is_empty() {
            viol!("yield-mismatch", "a request was yielded although nobody sent one".to_string());
        }
    }
    // one refused client: must read exactly the 503 text and then end-of-file
    macro_rules! expect_refused {
        ($conn:expr, $k:expr) => {{
            let mut got: Vec<u8> = Vec::new();
            let mut eof = false;
            loop {
                match world::with(|w| w.client_recv($conn, 1 << 16)) {
                    Ok(b) if b.is_empty() => {
                        eof = true;
                        break;
                    }
                    Ok(b) => got.extend_from_slice(&b),
                    Err(_) => break,
                }
            }
            if got != crate::engc::FULL_MSG || !eof {
                viol!(
                    "refused-client-output",
                    format!("surplus client #{} (server full): received {} byte(s), end-of-file = {}; expected the 503 text and a disconnect", $k, got.len(), eof)
                );
            }
            world::with(|w| w.client_close($conn));
        }};
    }
    let mut k = 0;
    while k < case.storm {
        step = k;
        st.steps += 1;
        let b = case.burst.min(case.storm - k);
        let mut conns = Vec::new();
        for _ in 0..b {
            match world::with(|w| w.client_connect(SOCK_PATH)) {
                Ok(c) => conns.push(c),
                Err(e) => return Err(format!("client connect failed: errno {}", e)),
            }
        }
        if !world::with(|w| w.epoll_readable(epfd)) {
            viol!("lost-wakeup", format!("{} client(s) wait to be accepted (after {} refusals) and the epoll descriptor is not readable", b, k));
        }
        let r = settle!("refusing surplus clients");
        if !r.is_empty() {
            viol!("yield-mismatch", "a request was yielded during the storm although nobody sent one".to_string());
        }
        for (i, c) in conns.into_iter().enumerate() {
            expect_refused!(c, k + i);
        }
        k += b;
    }
    st.probe("refusal_storm");
    if case.storm > 1024 {
        st.probe("refusal_storm_over_1024");
    }
    // time passes; the server is still full: one more client still gets its refusal
    simkernel::rawsys::clock::advance(10_000_000_000);
    step = case.storm;
    let late = match world::with(|w| w.client_connect(SOCK_PATH)) {
        Ok(c) => c,
        Err(e) => return Err(format!("client connect failed: errno {}", e)),
    };
    if !world::with(|w| w.epoll_readable(epfd)) {
        viol!("lost-wakeup", format!("ten simulated seconds after {} refusals a client waits to be accepted and the epoll descriptor is not readable", case.storm));
    }
    let _ = settle!("refusing a late client");
    expect_refused!(late, case.storm);
    // the residents are still served
    let conn = residents[3];
    let req = request_bytes(7);
    match world::with(|w| w.client_send(conn, &req)) {
        Ok(n) if n == req.len() => {}
        other => return Err(format!("client send: {:?}", other)),
    }
    let reqs = settle!("serving a resident after the storm");
    if reqs.len() != 1 {
        viol!("yield-mismatch", format!("a resident sent one request after the storm; {} yielded", reqs.len()));
    }
    let (resp, want) = response_for(7);
    let mut resp = Some(resp);
    for r in reqs {
        let mut slot = resp.take();
        let sr = r.process(|_| slot.take().expect("one response"));
        match catch_unwind(AssertUnwindSafe(|| server.respond(sr))) {
            Err(p) => viol!("panic", format!("respond() panicked: {}", panic_msg(p))),
            Ok(Err(e)) => viol!("respond-err", format!("respond() failed after the storm: {}", e)),
            Ok(Ok(())) => {}
        }
    }
    let _ = settle!("answering a resident after the storm");
    let got = world::with(|w| w.client_recv(conn, 1 << 16)).unwrap_or_default();
    if got != want {
        viol!("output-stream-differs", format!("the resident received {} byte(s), expected the {}-byte response", got.len(), want.len()));
    }
    // a resident leaves: capacity is regained, a newcomer is served
    world::with(|w| w.client_close(residents[0]));
    let _ = settle!("a resident left");
    let newcomer = match world::with(|w| w.client_connect(SOCK_PATH)) {
        Ok(c) => c,
        Err(e) => return Err(format!("client connect failed: errno {}", e)),
    };
    let _ = settle!("accepting a newcomer");
    let req = request_bytes(8);
    let _ = world::with(|w| w.client_send(newcomer, &req));
    let reqs = settle!("serving the newcomer");
    if reqs.len() != 1 {
        let got = world::with(|w| w.client_recv(newcomer, 1 << 16)).unwrap_or_default();
        viol!(
            "refused-below-capacity",
            format!("after a resident left, a newcomer's request was not yielded ({} yielded); it received {} byte(s)", reqs.len(), got.len())
        );
    }
    sig.u(case.storm as u64);
    sig.u(case.burst as u64);
    drop(server);
    Ok(RunOut { violation: None, nontrivial: true, sig: sig.get(), trace_hash: sig.get() })
}
