//! Generators: request grammar, single-point corruptions, streams, read schedules.

use crate::model::{model_stream, ModelOut};
use crate::rng::Rng;

#[derive(Clone, Debug)]
pub struct GenReq {
    pub method: Vec<u8>,
    pub sp1: Vec<u8>,
    pub uri: Vec<u8>,
    pub sp2: Vec<u8>,
    pub version: Vec<u8>,
    pub rl_end: Vec<u8>,
    /// header lines without terminator, each with its own terminator
    pub headers: Vec<(Vec<u8>, Vec<u8>)>,
    pub blank: Vec<u8>,
    pub body: Vec<u8>,
}

impl GenReq {
    pub fn render(&self) -> Vec<u8> {
        let mut o = Vec::new();
        o.extend_from_slice(&self.method);
        o.extend_from_slice(&self.sp1);
        o.extend_from_slice(&self.uri);
        o.extend_from_slice(&self.sp2);
        o.extend_from_slice(&self.version);
        o.extend_from_slice(&self.rl_end);
        for (h, e) in &self.headers {
            o.extend_from_slice(h);
            o.extend_from_slice(e);
        }
        o.extend_from_slice(&self.blank);
        o.extend_from_slice(&self.body);
        o
    }
    pub fn request_line_len(&self) -> usize {
        self.method.len() + self.sp1.len() + self.uri.len() + self.sp2.len() + self.version.len() + self.rl_end.len()
    }
}

#[derive(Clone, Debug)]
pub struct GenCfg {
    pub limit: usize,
    pub window: usize,
    pub max_reqs: usize,
    /// permit long lines / large bodies
    pub allow_big: bool,
    /// per-mille chance that a stream gets a single-point corruption
    pub corrupt: usize,
    /// per-mille chance of truncation
    pub truncate: usize,
    /// per-mille chance of raw byte mutation
    pub mutate: usize,
    /// per-mille chance of a fully random stream
    pub random: usize,
    /// per-mille chance that a header fatal by the header rules is included in a request
    pub fatal_hdr: usize,
    /// always attach a tag to URI and body
    pub expect_bias: usize,
}

impl GenCfg {
    pub fn default_for(limit: usize) -> GenCfg {
        GenCfg {
            limit,
            window: crate::model::WINDOW,
            max_reqs: 6,
            allow_big: true,
            corrupt: 250,
            truncate: 150,
            mutate: 60,
            random: 10,
            fatal_hdr: 30,
            expect_bias: 150,
        }
    }
}

const PADS: [&str; 6] = ["", " ", "  ", "\t", " \t ", "\u{2003}"];

fn pad(rng: &mut Rng) -> &'static str {
    if rng.chance(6, 10) {
        ""
    } else {
        PADS[rng.below(PADS.len())]
    }
}

fn recase(rng: &mut Rng, name: &str) -> String {
    match rng.below(4) {
        0 => name.to_string(),
        1 => name.to_ascii_lowercase(),
        2 => name.to_ascii_uppercase(),
        _ => name
            .chars()
            .map(|c| if rng.chance(1, 2) { c.to_ascii_uppercase() } else { c.to_ascii_lowercase() })
            .collect(),
    }
}

fn token(rng: &mut Rng, n: usize) -> String {
    const A: &[u8] = b"abcdefghijklmnopqrstuvwxyzABCDEFGHIJKLMNOPQRSTUVWXYZ0123456789-_.~";
    (0..n).map(|_| A[rng.below(A.len())] as char).collect()
}

pub fn gen_uri(rng: &mut Rng, tag: &str) -> Vec<u8> {
    let tl = 1 + rng.below(6);
    let t = if tag.is_empty() { token(rng, tl) } else { tag.to_string() };
    let s = match rng.weighted(&[50, 10, 8, 8, 4, 4, 4, 4, 4, 4, 3, 2, 2, 4, 2, 2, 1, 1, 1, 1]) {
        0 => format!("/{}", t),
        1 => format!("/{}/{}?q={}", token(rng, 3), t, token(rng, 4)),
        2 => format!("http://localhost/{}", t),
        3 => format!("http://host:80/{}/x", t),
        4 => format!("http://{}", t),
        5 => format!("/caf\u{e9}/{}/\u{4e16}\u{754c}", t),
        6 => t.to_string(),
        7 => format!("*{}", t),
        8 => format!("http:/{}", t),
        9 => format!("//{}", t),
        // degenerate forms: scheme only, root only, empty authority
        10 => "http://".to_string(),
        11 => "/".to_string(),
        12 => format!("http:///{}", t),
        // multi-byte characters in the authority (before the first '/') and no path at all
        13 => format!("http://caf\u{e9}.\u{4e16}\u{754c}:8080/{}/\u{20ac}", t),
        14 => format!("http://\u{20ac}{}", t),
        // the scheme prefix repeated, or appearing inside the authority / path (only ONE prefix is the scheme)
        15 => format!("http://http://localhost/{}", t),
        16 => format!("http://http://http://{}", t),
        17 => format!("http://host/http://{}", t),
        // long paths (lengths beyond 255)
        18 => format!("/{}/{}", "p".repeat(rng.range(200, 900)), t),
        // only characters that some notion of "white space" covers, but no SP: valid URIs
        _ => (*rng.pick(&["\t", "\x0c", "\x0b", "\n", "\r", "\t\t", "\u{a0}", "\u{2003}"])).to_string(),
    };
    s.into_bytes()
}

fn interesting_body(rng: &mut Rng, n: usize, tag: &str) -> Vec<u8> {
    if n == 0 {
        return vec![];
    }
    let mut b = match rng.below(6) {
        0 => rng.bytes(n),
        1 => {
            let pat = b"\r\n\r\nGET /smuggled HTTP/1.1\r\n\r\n";
            (0..n).map(|i| pat[i % pat.len()]).collect()
        }
        2 => {
            let pat = b"HTTP/1.1 200 \r\nContent-Length: 5\r\n\r\n";
            (0..n).map(|i| pat[i % pat.len()]).collect()
        }
        3 => vec![b'\r'; n],
        4 => (0..n).map(|i| if i % 2 == 0 { b'\r' } else { b'\n' }).collect(),
        _ => (0..n).map(|i| b'a' + (i % 26) as u8).collect(),
    };
    // stamp the tag at the front when it fits
    let t = tag.as_bytes();
    if !t.is_empty() && t.len() + 2 <= n {
        b[0] = b'<';
        b[1..1 + t.len()].copy_from_slice(t);
        b[1 + t.len()] = b'>';
    }
    b
}

pub fn body_len(rng: &mut Rng, cfg: &GenCfg) -> usize {
    let l = cfg.limit;
    // bodies near a large limit are expensive: keep them rare, and never materialise
    // anything beyond the 60 KiB stream bound
    let near = if l > 60_000 { 0 } else if l >= 4096 { 1 } else { 10 };
    let w = [40, 30, 10, 4, near, if cfg.allow_big { 2 } else { 0 }, 4];
    let n = match rng.weighted(&w) {
        0 => 0,
        1 => rng.range(1, 64),
        2 => rng.range(65, 2100),
        3 => rng.range(cfg.window.saturating_sub(4), cfg.window + 4),
        4 => {
            // around the limit
            let lo = l.saturating_sub(2);
            rng.range(lo, l.saturating_add(2).min(lo + 4))
        }
        5 => rng.range(2101, 60_000),
        _ => rng.range(cfg.window * 2 - 3, cfg.window * 2 + 3),
    };
    n
}

/// A request that is well-formed by the grammar (it may contain tolerated faults such as
/// unsupported header values), unless `cfg.fatal_hdr` fires.
pub fn gen_request(rng: &mut Rng, cfg: &GenCfg, tag: &str) -> GenReq {
    let method: &[u8] = match rng.weighted(&[40, 30, 30]) {
        0 => b"GET",
        1 => b"PUT",
        _ => b"PATCH",
    };
    let mut n = body_len(rng, cfg);
    // bodies above the limit only sometimes (they end the stream with an error)
    if n > cfg.limit && !rng.chance(1, 4) {
        n = if cfg.limit == 0 { 0 } else { rng.range(0, cfg.limit.min(64)) };
    }
    if method == b"GET" && rng.chance(3, 4) {
        n = 0;
    }
    let version: &[u8] = if rng.chance(1, 2) { b"HTTP/1.1" } else { b"HTTP/1.0" };
    let mut headers: Vec<Vec<u8>> = Vec::new();
    let mut nh = rng.weighted(&[20, 25, 25, 15, 8, 4, 3]);
    if cfg.allow_big && rng.chance(1, 150) {
        // a header block of dozens to hundreds of lines (several receive windows long)
        nh = rng.range(40, 300);
    }
    // in long blocks (and now and then in a block of 33..70 lines) every line is a custom header with
    // a name of its own: dozens to hundreds of *distinct* entries in the custom-header map
    let mut distinct_names = nh >= 40 && rng.chance(1, 2);
    if cfg.allow_big && rng.chance(1, 400) {
        nh = rng.range(33, 70);
        distinct_names = true;
    }
    for i in 0..nh {
        if distinct_names {
            headers.push(format!("x{}-{}: {}", i, ["a", "Key", "hdr", "Z"][i % 4], i * 7).into_bytes());
        } else {
            headers.push(gen_header_line(rng, cfg));
        }
    }
    let mut wants_expect = false;
    if n > 0 && rng.chance(cfg.expect_bias, 1000) {
        wants_expect = true;
    }
    if wants_expect {
        let name = recase(rng, "Expect");
        let l = format!("{}{}:{}100-continue{}", pad(rng), name, pad(rng), pad(rng));
        let at = rng.below(headers.len() + 1);
        headers.insert(at, l.into_bytes());
    }
    if n > 0 || rng.chance(1, 10) {
        // decoy Content-Length first, the effective one last
        if rng.chance(1, 8) {
            let l = format!("Content-Length: {}", rng.below(5000));
            let at = rng.below(headers.len() + 1);
            headers.insert(at, l.into_bytes());
        }
        let name = recase(rng, "Content-Length");
        // leading zeros, also many of them: still an unsigned 32-bit decimal
        let digits = if rng.chance(1, 10) { format!("{}{}", "0".repeat(*rng.pick(&[1usize, 2, 2, 5, 9, 10, 11, 15, 25])), n) } else { n.to_string() };
        let l = format!("{}{}{}:{}{}{}", pad(rng), name, pad(rng), pad(rng), digits, pad(rng));
        // must come after any other Content-Length line
        let last_cl = headers
            .iter()
            .rposition(|h| String::from_utf8_lossy(h).to_ascii_lowercase().trim_start().starts_with("content-length"));
        let lo = last_cl.map(|p| p + 1).unwrap_or(0);
        let at = rng.range(lo, headers.len());
        headers.insert(at, l.into_bytes());
    } else {
        // make sure no stray Content-Length (from gen_header_line decoys) declares a body
        headers.retain(|h| !String::from_utf8_lossy(h).to_ascii_lowercase().trim_start().starts_with("content-length"));
    }
    let body = interesting_body(rng, n, tag);
    GenReq {
        method: method.to_vec(),
        sp1: b" ".to_vec(),
        uri: gen_uri(rng, tag),
        sp2: b" ".to_vec(),
        version: version.to_vec(),
        rl_end: b"\r\n".to_vec(),
        headers: headers.into_iter().map(|h| (h, b"\r\n".to_vec())).collect(),
        blank: b"\r\n".to_vec(),
        body,
    }
}

/// One header line (no terminator). Never a Content-Length (added by the caller), and
/// fatal only with probability cfg.fatal_hdr.
pub fn gen_header_line(rng: &mut Rng, cfg: &GenCfg) -> Vec<u8> {
    let fatal = rng.chance(cfg.fatal_hdr, 1000);
    if fatal {
        let l: Vec<u8> = match rng.below(12) {
            // a line of white space only is a line without a colon, not the end of the header block
            9 => b" ".to_vec(),
            10 => b"\t \t".to_vec(),
            11 => "\u{3000}".as_bytes().to_vec(),
            0 => b"NoColonHere".to_vec(),
            1 => b"X-Bad: \xff\xfe".to_vec(),
            2 => b"Content-Length: abc".to_vec(),
            3 => b"Content-Length: -1".to_vec(),
            4 => b"Content-Length: 4294967296".to_vec(),
            5 => b"Content-Length:".to_vec(),
            6 => b"Accept-Encoding: identity;q=0".to_vec(),
            7 => b"Accept-Encoding: gzip, *;q=0".to_vec(),
            _ => b"Accept-Encoding:   ".to_vec(),
        };
        return l;
    }
    let (name, value): (String, String) = match rng.weighted(&[10, 10, 10, 8, 6, 10, 25, 5, 3]) {
        0 => (
            "Content-Type".into(),
            (*rng.pick(&["application/json", "text/plain", "text/html", "", "application/json; charset=utf-8"])).into(),
        ),
        1 => (
            "Accept".into(),
            (*rng.pick(&[
                "application/json",
                "text/plain",
                "*/*",
                "text/plain, application/json",
                "",
                // a supported type followed by parameters is not one of the two supported values
                "application/json;q=0.5",
                "application/json; q=0.5",
                "application/json;",
                "text/plain;charset=utf-8",
                "application/json,text/plain",
                "Application/JSON",
            ]))
            .into(),
        ),
        2 => ("Transfer-Encoding".into(), (*rng.pick(&["chunked", "identity", "gzip", "Chunked", ""])).into()),
        3 => ("Expect".into(), (*rng.pick(&["103-checkpoint", "100-Continue", "", "100-continue2"])).into()),
        4 => ("Server".into(), token(rng, 5)),
        5 => (
            "Accept-Encoding".into(),
            (*rng.pick(&[
                "gzip",
                "identity",
                "gzip, deflate",
                "*;q=0, identity",
                "identity;q=0.5",
                "identity, *;q=0",
                "deflate;q=0",
                // only the literal entries `identity;q=0` and `*;q=0` (without identity) are fatal: other
                // spellings of a zero weight, other positions in longer lists
                "identity;q=0.0",
                "identity;q=0.000",
                "identity;q=-0",
                "identity;q=0e0",
                "*;q=0.0",
                "gzip, deflate, br",
                "gzip, deflate, identity;q=0",
                "gzip, deflate, br, *;q=0",
                "identity;q=0, gzip",
                "*;q=0, gzip",
                "*;q=0, identity;q=0.5",
                "gzip;q=1.0, identity; q=0",
                // empty list elements are not the empty VALUE
                "gzip,",
                ",gzip",
                "gzip,,deflate",
                ",",
                " , ",
            ]))
            .into(),
        ),
        6 => {
            // (incl. names that equal a recognised name only after Unicode case mapping: U+017F long s,
            // U+0131 dotless i, U+212A Kelvin sign - they are custom names)
            let names = [
                "X-Tag",
                "Host",
                "User-Agent",
                "x-tag",
                "X-Tag ",
                "Foo",
                "Content-Lengthy",
                "Accepts",
                "X-TAG",
                "foo",
                "\u{17f}erver",
                "Tran\u{17f}fer-Encoding",
                "Accept-Encod\u{131}ng",
                "Content-Length\u{17f}",
                "E\u{445}pect",
            ];
            {
                let n = rng.below(12);
                ((*rng.pick(&names)).into(), token(rng, n))
            }
        }
        7 => {
            let n = 1 + rng.below(8);
            (token(rng, n), format!("a:b:{}", token(rng, 3)))
        }
        _ => ("".into(), token(rng, 3)),
    };
    let recognised = ["Content-Type", "Accept", "Transfer-Encoding", "Expect", "Server", "Accept-Encoding"];
    let name = if recognised.contains(&name.as_str()) { recase(rng, &name) } else { name };
    let mut l = format!("{}{}{}:{}{}{}", pad(rng), name, pad(rng), pad(rng), value, pad(rng)).into_bytes();
    // occasionally a stray CR or LF inside a custom value (legal inside a line: only CRLF ends it)
    if rng.chance(1, 40) && !l.is_empty() {
        let at = rng.below(l.len());
        let c = if rng.chance(1, 2) { b'\r' } else { b'\n' };
        // never create CRLF by accident
        let prev_cr = at > 0 && l[at - 1] == b'\r';
        let next_lf = at < l.len() && l[at] == b'\n';
        if !(c == b'\n' && prev_cr) && !(c == b'\r' && next_lf) {
            l.insert(at, c);
            // never split a multi-byte character (that would be a different fault: invalid UTF-8)
            if std::str::from_utf8(&l).is_err() {
                l.remove(at);
            }
        }
    }
    l
}

pub const N_CORRUPTIONS: usize = 22;

/// Single-point corruptions named in C02.
pub fn corrupt(rng: &mut Rng, r: &mut GenReq, which: usize) {
    match which {
        0 => r.method = r.method.to_ascii_lowercase(),
        1 => r.method = vec![],
        2 => r.method = (*rng.pick(&[&b"POST"[..], b"DELETE", b"HEAD", b"GETT", b"GE", b"PATCHY", b"\xffGET"])).to_vec(),
        3 => r.sp1 = vec![],
        4 => r.sp1 = b"  ".to_vec(),
        5 => r.sp2 = vec![],
        6 => r.sp2 = b"  ".to_vec(),
        7 => r.uri = vec![],
        8 => r.uri = b"/\xff\xfe/bad".to_vec(),
        9 => r.version = (*rng.pick(&[&b"HTTP/1.2"[..], b"HTTP/2.0", b"http/1.1", b"HTTP/1.1 ", b"", b"HTTP/1.10", b"HTTP/1.1\r", b"HTTP/1.01", b"HTTP/01.1", b"HTTP/+1.1", b"HTTP/1.+0", b"HTTP/1.1.0", b"HTTP/1", b"HTTP/1.", b"HTTP/ 1.1"])).to_vec(),
        10 => r.rl_end = b"\n".to_vec(),
        11 => r.rl_end = b"\r".to_vec(),
        12 => {
            // stray CR / LF inside the request line
            let c = if rng.chance(1, 2) { b'\r' } else { b'\n' };
            let at = rng.below(r.uri.len() + 1);
            r.uri.insert(at, c);
        }
        13 => {
            let at = rng.below(r.headers.len() + 1);
            let l: &[u8] = match rng.below(4) {
                0 => b" ",
                1 => b"\t",
                _ => b"MissingColon",
            };
            r.headers.insert(at, (l.to_vec(), b"\r\n".to_vec()));
        }
        14 => {
            let at = rng.below(r.headers.len() + 1);
            r.headers.insert(at, (b"X-Bin: \x80\xff".to_vec(), b"\r\n".to_vec()));
        }
        15 => {
            // Content-Length edge values; appended last so that it is the effective one
            let v = *rng.pick(&["0", "007", "4294967295", "4294967296", "-1", "", " ", "1e3", "0x10", "99999999999999999999", "00000000000", "000000000000000000007", "0000000004294967295", "0000000004294967296", "-0", "-00", "0.0", "1 0", "0,0"]);
            r.headers.push((format!("Content-Length: {}", v).into_bytes(), b"\r\n".to_vec()));
        }
        16 => {
            if !r.headers.is_empty() {
                let k = rng.below(r.headers.len());
                r.headers[k].1 = if rng.chance(1, 2) { b"\n".to_vec() } else { b"\r".to_vec() };
            } else {
                r.blank = b"\n".to_vec();
            }
        }
        17 => r.blank = if rng.chance(1, 2) { b"\n".to_vec() } else { b"\r".to_vec() },
        18 => {
            // line longer than the window
            let w = crate::model::WINDOW;
            let extra = rng.range(w - 24, w + 76);
            if rng.chance(1, 2) {
                r.uri.extend(std::iter::repeat(b'u').take(extra));
            } else {
                let mut l = b"X-Long: ".to_vec();
                l.extend(std::iter::repeat(b'v').take(extra));
                let at = rng.below(r.headers.len() + 1);
                r.headers.insert(at, (l, b"\r\n".to_vec()));
            }
        }
        19 => {
            let at = rng.below(r.headers.len() + 1);
            let l = (*rng.pick(&[&b"Accept-Encoding: identity;q=0"[..], b"Accept-Encoding: *;q=0", b"Accept-Encoding:"])).to_vec();
            r.headers.insert(at, (l, b"\r\n".to_vec()));
        }
        20 => {
            // body shorter / longer than declared
            if !r.body.is_empty() && rng.chance(1, 2) {
                let k = rng.below(r.body.len());
                r.body.truncate(k);
            } else {
                let extra = rng.range(1, 40);
                r.body.extend(rng.bytes(extra));
            }
        }
        _ => {
            // leading blank line before the request
            r.method.splice(0..0, b"\r\n".iter().cloned());
        }
    }
}

/// Pad a request so that its request line or one header line ends near a window edge.
pub fn pad_to_edge(rng: &mut Rng, r: &mut GenReq, preceding: usize, window: usize) {
    let delta: i64 = rng.range(0, 6) as i64 - 3;
    if r.headers.is_empty() || rng.chance(1, 2) {
        // request line end at stream offset k*window + delta
        let cur = preceding + r.request_line_len();
        let target = ((cur / window) + 1) * window;
        let want = target as i64 + delta;
        if want > cur as i64 {
            let add = (want - cur as i64) as usize;
            if r.request_line_len() + add <= window + 8 {
                r.uri.extend(std::iter::repeat(b'p').take(add));
            }
        }
    } else {
        let k = rng.below(r.headers.len());
        let mut cur = preceding + r.request_line_len();
        for j in 0..=k {
            cur += r.headers[j].0.len() + r.headers[j].1.len();
        }
        let target = ((cur / window) + 1) * window;
        let want = target as i64 + delta;
        if want > cur as i64 {
            let add = (want - cur as i64) as usize;
            if r.headers[k].0.len() + add <= window + 8 && r.headers[k].0.contains(&b':') {
                r.headers[k].0.extend(std::iter::repeat(b'p').take(add));
            }
        }
    }
}

pub fn mutate_bytes(rng: &mut Rng, s: &mut Vec<u8>) {
    let n = 1 + rng.below(3);
    for _ in 0..n {
        if s.is_empty() {
            s.push(rng.byte());
            continue;
        }
        let at = rng.below(s.len());
        match rng.below(4) {
            0 => s[at] ^= 1 << rng.below(8),
            1 => {
                let c = *rng.pick(&[b'\r', b'\n', b' ', b':', 0u8, 0xff, b'0']);
                s.insert(at, c);
            }
            2 => {
                s.remove(at);
            }
            _ => s[at] = rng.byte(),
        }
    }
}

/// A whole stream: 1..max_reqs requests, possibly corrupted / truncated / mutated.
/// Tags are `<prefix>r<k>`.
pub fn gen_stream(rng: &mut Rng, cfg: &GenCfg, tag_prefix: &str) -> Vec<u8> {
    if rng.chance(cfg.random, 1000) {
        let n = rng.below(300);
        return rng.bytes(n);
    }
    let mut nreq = 1 + rng.weighted(&[35, 30, 15, 10, 6, 4]).min(cfg.max_reqs.saturating_sub(1));
    // marathon: a long-lived connection carrying tens to hundreds of pipelined requests (state left
    // over from request k must not affect request k+n; nothing may drift or accumulate)
    if cfg.max_reqs >= 6 && rng.chance(1, 150) {
        nreq = rng.range(40, 400);
    }
    // volley: dozens of *minimal* requests back to back, so that a single receive of a full window
    // completes far more requests than any per-call bound someone might think generous (17..56 in
    // 1024 bytes, 3 in 64)
    if cfg.max_reqs >= 6 && rng.chance(1, 120) {
        let n = rng.range(17, 120);
        let mut s = Vec::new();
        for k in 0..n {
            match rng.below(4) {
                0 => s.extend_from_slice(format!("GET /{}r{} HTTP/1.1\r\n\r\n", tag_prefix, k).as_bytes()),
                1 => s.extend_from_slice(b"GET / HTTP/1.0\r\n\r\n"),
                2 => s.extend_from_slice(format!("PUT /{}r{} HTTP/1.1\r\nContent-Length: 1\r\n\r\n{}", tag_prefix, k, (b'a' + (k % 26) as u8) as char).as_bytes()),
                _ => s.extend_from_slice(b"PATCH /p HTTP/1.1\r\n\r\n"),
            }
        }
        return s;
    }
    let corrupt_at = if rng.chance(cfg.corrupt, 1000) { Some(rng.below(nreq)) } else { None };
    let edge_at = if cfg.allow_big && rng.chance(1, 5) { Some(rng.below(nreq)) } else { None };
    let mut s = Vec::new();
    for k in 0..nreq {
        let tag = format!("{}r{}", tag_prefix, k);
        let mut r = gen_request(rng, cfg, &tag);
        if edge_at == Some(k) {
            pad_to_edge(rng, &mut r, s.len(), cfg.window);
        }
        if corrupt_at == Some(k) {
            let which = rng.below(N_CORRUPTIONS);
            if which != 18 || cfg.allow_big {
                corrupt(rng, &mut r, which);
            }
        }
        s.extend(r.render());
        if s.len() > 60_000 {
            break;
        }
    }
    if rng.chance(cfg.truncate, 1000) && !s.is_empty() {
        let k = rng.below(s.len());
        s.truncate(k);
    }
    if rng.chance(cfg.mutate, 1000) {
        mutate_bytes(rng, &mut s);
    }
    s
}

// ------------------------------------------------------------------ schedules

#[derive(Clone, Debug, PartialEq, Eq)]
pub enum SOp {
    /// read (as often as needed) until exactly this stream offset has been delivered
    Cut(usize),
    /// one read of at most n bytes
    Chunk(usize),
    /// `count` reads of at most n bytes
    Rep(usize, usize),
    Eagain,
    Eintr,
}

/// positions worth cutting at, from the structure of the stream
pub fn aimed_positions(m: &ModelOut, len: usize, window: usize) -> Vec<usize> {
    let mut v = Vec::new();
    for &e in &m.line_ends {
        // inside CR|LF, before CR, after LF, one further
        for d in [-3i64, -2, -1, 0, 1] {
            let p = e as i64 + d;
            if p > 0 && (p as usize) < len {
                v.push(p as usize);
            }
        }
    }
    for &e in m.header_ends.iter().chain(m.request_ends.iter()) {
        for d in [-1i64, 0, 1] {
            let p = e as i64 + d;
            if p > 0 && (p as usize) < len {
                v.push(p as usize);
            }
        }
    }
    let mut k = window;
    while k < len {
        for d in [-2i64, -1, 0, 1, 2] {
            let p = k as i64 + d;
            if p > 0 && (p as usize) < len {
                v.push(p as usize);
            }
        }
        k += window;
    }
    v.sort_unstable();
    v.dedup();
    v
}

pub const N_POLICIES: usize = 6;

/// Draw a read schedule from the mixture. `policy` None = random policy.
pub fn gen_schedule(rng: &mut Rng, stream: &[u8], m: &ModelOut, window: usize, policy: Option<usize>, empties: bool) -> Vec<SOp> {
    let len = stream.len();
    let p = policy.unwrap_or_else(|| rng.weighted(&[10, 10, 15, 25, 35, 5]));
    let mut ops: Vec<SOp> = Vec::new();
    match p {
        0 => {} // greedy fill
        1 => {
            if len <= 4096 {
                ops.push(SOp::Rep(1, len));
            } else {
                ops.push(SOp::Rep(1, 1500));
                ops.push(SOp::Rep(17, len / 17 + 1));
            }
        }
        2 => {
            let c = *rng.pick(&[2usize, 3, 5, 7, 16, 63, 64, 100, 500, 1000, 1023]);
            ops.push(SOp::Rep(c, (len / c + 1).min(4000)));
        }
        3 => {
            let maxc = *rng.pick(&[3usize, 8, 40, 200, 1024]);
            let mut total = 0;
            let mut guard = 0;
            while total < len && guard < 3000 {
                let c = 1 + rng.below(maxc);
                ops.push(SOp::Chunk(c));
                total += c;
                guard += 1;
            }
        }
        4 => {
            let pos = aimed_positions(m, len, window);
            if !pos.is_empty() {
                let k = 1 + rng.below(pos.len().min(12));
                let mut chosen: Vec<usize> = (0..k).map(|_| pos[rng.below(pos.len())]).collect();
                chosen.sort_unstable();
                chosen.dedup();
                for c in chosen {
                    ops.push(SOp::Cut(c));
                }
            }
        }
        _ => {
            // mixture: some greedy fills, some single bytes, some aimed cuts
            let pos = aimed_positions(m, len, window);
            let mut at = 0usize;
            let mut guard = 0;
            while at < len && guard < 400 {
                guard += 1;
                match rng.below(3) {
                    0 => {
                        ops.push(SOp::Chunk(usize::MAX));
                        at += window;
                    }
                    1 => {
                        let n = 1 + rng.below(4);
                        ops.push(SOp::Rep(1, n));
                        at += n;
                    }
                    _ => {
                        if let Some(&c) = pos.iter().find(|&&c| c > at) {
                            ops.push(SOp::Cut(c));
                            at = c;
                        } else {
                            ops.push(SOp::Chunk(usize::MAX));
                            at += window;
                        }
                    }
                }
            }
        }
    }
    if empties && rng.chance(1, 2) {
        // sprinkle empty reads
        let n = 1 + rng.below(4);
        for _ in 0..n {
            let at = rng.below(ops.len() + 1);
            ops.insert(at, if rng.chance(1, 2) { SOp::Eagain } else { SOp::Eintr });
        }
    }
    ops
}

pub fn model_of(stream: &[u8], limit: usize, window: usize) -> ModelOut {
    model_stream(stream, limit, window)
}


/// A stream around one very large body (lengths at and beyond 2^16 and 2^17): 0..2 ordinary
/// requests, then PUT/PATCH with a body of 65535..131073 bytes, then possibly one more request.
/// Returns (payload limit to configure, stream).
pub fn gen_giant_stream(rng: &mut Rng) -> (usize, Vec<u8>) {
    let limit = *rng.pick(&[65_536usize, 131_072, 200_000, 1 << 20]);
    let mut cfg = GenCfg::default_for(limit);
    cfg.allow_big = false;
    cfg.corrupt = 0;
    cfg.truncate = 0;
    cfg.mutate = 0;
    cfg.random = 0;
    cfg.fatal_hdr = 0;
    let mut small = cfg.clone();
    small.limit = 64;
    let mut s = Vec::new();
    for k in 0..rng.below(3) {
        s.extend(gen_request(rng, &small, &format!("g{}", k)).render());
    }
    let n = *rng.pick(&[65_535usize, 65_536, 65_537, 70_000, 131_071, 131_072, 131_073]);
    let method = if rng.chance(1, 2) { "PUT" } else { "PATCH" };
    let mut head = format!("{} /giant HTTP/1.1\r\n", method);
    if rng.chance(1, 3) {
        head.push_str("Expect: 100-continue\r\n");
    }
    head.push_str(&format!("Content-Length: {}\r\n\r\n", n));
    s.extend(head.as_bytes());
    let have = if rng.chance(1, 6) { rng.below(n + 1) } else { n };
    s.extend((0..have).map(|i| (i % 251) as u8));
    if have == n && rng.chance(1, 2) {
        s.extend(gen_request(rng, &small, "gz").render());
    }
    (limit, s)
}
