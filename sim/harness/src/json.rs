//! Minimal JSON value, writer and parser (no external crates).

use std::collections::BTreeMap;
use std::fmt::Write;

#[derive(Clone, Debug, PartialEq)]
pub enum J {
    Null,
    Bool(bool),
    Int(i128),
    Float(f64),
    Str(String),
    /// raw bytes; written as a hex string (and read back as Str: use `bytes()`)
    Bytes(Vec<u8>),
    Arr(Vec<J>),
    Obj(BTreeMap<String, J>),
}

pub fn obj(pairs: Vec<(&str, J)>) -> J {
    let mut m = BTreeMap::new();
    for (k, v) in pairs {
        m.insert(k.to_string(), v);
    }
    J::Obj(m)
}
pub fn s(x: &str) -> J {
    J::Str(x.to_string())
}
pub fn i<T: Into<i128>>(x: T) -> J {
    J::Int(x.into())
}
pub fn u(x: usize) -> J {
    J::Int(x as i128)
}
pub fn hex(b: &[u8]) -> J {
    J::Bytes(b.to_vec())
}
fn hex_string(b: &[u8]) -> String {
    const D: &[u8; 16] = b"0123456789abcdef";
    let mut o = String::with_capacity(b.len() * 2);
    for x in b {
        o.push(D[(x >> 4) as usize] as char);
        o.push(D[(x & 15) as usize] as char);
    }
    o
}
pub fn unhex(x: &str) -> Result<Vec<u8>, String> {
    let b = x.as_bytes();
    if b.len() % 2 != 0 {
        return Err("odd hex".into());
    }
    let d = |c: u8| -> Result<u8, String> {
        match c {
            b'0'..=b'9' => Ok(c - b'0'),
            b'a'..=b'f' => Ok(c - b'a' + 10),
            b'A'..=b'F' => Ok(c - b'A' + 10),
            _ => Err("bad hex".into()),
        }
    };
    let mut v = Vec::with_capacity(b.len() / 2);
    for k in 0..b.len() / 2 {
        v.push(d(b[2 * k])? << 4 | d(b[2 * k + 1])?);
    }
    Ok(v)
}

/// printable rendering of bytes for humans (samples in evidence): ASCII kept, rest \xNN
pub fn show(b: &[u8]) -> String {
    let mut o = String::new();
    for &c in b.iter().take(400) {
        match c {
            b'\r' => o.push_str("\\r"),
            b'\n' => o.push_str("\\n"),
            b'\\' => o.push_str("\\\\"),
            0x20..=0x7e => o.push(c as char),
            _ => {
                let _ = write!(o, "\\x{:02x}", c);
            }
        }
    }
    if b.len() > 400 {
        let _ = write!(o, "...(+{} bytes)", b.len() - 400);
    }
    o
}

impl J {
    pub fn get(&self, k: &str) -> Option<&J> {
        match self {
            J::Obj(m) => m.get(k),
            _ => None,
        }
    }
    pub fn str(&self) -> Option<&str> {
        match self {
            J::Str(x) => Some(x),
            _ => None,
        }
    }
    pub fn int(&self) -> Option<i128> {
        match self {
            J::Int(x) => Some(*x),
            _ => None,
        }
    }
    pub fn usize(&self) -> Option<usize> {
        self.int().map(|x| x as usize)
    }
    pub fn bool(&self) -> Option<bool> {
        match self {
            J::Bool(x) => Some(*x),
            _ => None,
        }
    }
    pub fn arr(&self) -> Option<&Vec<J>> {
        match self {
            J::Arr(x) => Some(x),
            _ => None,
        }
    }
    pub fn req(&self, k: &str) -> Result<&J, String> {
        self.get(k).ok_or_else(|| format!("missing key {}", k))
    }
    pub fn req_usize(&self, k: &str) -> Result<usize, String> {
        self.req(k)?.usize().ok_or_else(|| format!("key {} not an integer", k))
    }
    pub fn req_str(&self, k: &str) -> Result<&str, String> {
        self.req(k)?.str().ok_or_else(|| format!("key {} not a string", k))
    }
    pub fn req_arr(&self, k: &str) -> Result<&Vec<J>, String> {
        self.req(k)?.arr().ok_or_else(|| format!("key {} not an array", k))
    }
    pub fn bytes(&self) -> Option<Vec<u8>> {
        match self {
            J::Bytes(b) => Some(b.clone()),
            J::Str(x) => unhex(x).ok(),
            _ => None,
        }
    }
    pub fn req_hex(&self, k: &str) -> Result<Vec<u8>, String> {
        self.req(k)?.bytes().ok_or_else(|| format!("key {} not hex bytes", k))
    }

    pub fn write(&self, o: &mut String) {
        match self {
            J::Null => o.push_str("null"),
            J::Bool(b) => o.push_str(if *b { "true" } else { "false" }),
            J::Int(x) => {
                let _ = write!(o, "{}", x);
            }
            J::Float(x) => {
                if x.is_finite() {
                    let _ = write!(o, "{}", x);
                    if x.fract() == 0.0 && !format!("{}", x).contains('e') {
                        o.push_str(".0");
                    }
                } else {
                    o.push_str("null");
                }
            }
            J::Str(x) => write_str(o, x),
            J::Bytes(b) => {
                o.push('"');
                o.push_str(&hex_string(b));
                o.push('"');
            }
            J::Arr(a) => {
                o.push('[');
                for (k, v) in a.iter().enumerate() {
                    if k > 0 {
                        o.push(',');
                    }
                    v.write(o);
                }
                o.push(']');
            }
            J::Obj(m) => {
                o.push('{');
                for (k, (key, v)) in m.iter().enumerate() {
                    if k > 0 {
                        o.push(',');
                    }
                    write_str(o, key);
                    o.push(':');
                    v.write(o);
                }
                o.push('}');
            }
        }
    }
    pub fn to_string(&self) -> String {
        let mut o = String::new();
        self.write(&mut o);
        o
    }
}

fn write_str(o: &mut String, x: &str) {
    o.push('"');
    for c in x.chars() {
        match c {
            '"' => o.push_str("\\\""),
            '\\' => o.push_str("\\\\"),
            '\n' => o.push_str("\\n"),
            '\r' => o.push_str("\\r"),
            '\t' => o.push_str("\\t"),
            c if (c as u32) < 0x20 => {
                let _ = write!(o, "\\u{:04x}", c as u32);
            }
            c => o.push(c),
        }
    }
    o.push('"');
}

pub fn parse(text: &str) -> Result<J, String> {
    let mut p = P { b: text.as_bytes(), i: 0 };
    p.ws();
    let v = p.value()?;
    p.ws();
    if p.i != p.b.len() {
        return Err(format!("trailing data at {}", p.i));
    }
    Ok(v)
}

struct P<'a> {
    b: &'a [u8],
    i: usize,
}

impl<'a> P<'a> {
    fn ws(&mut self) {
        while self.i < self.b.len() && matches!(self.b[self.i], b' ' | b'\n' | b'\r' | b'\t') {
            self.i += 1;
        }
    }
    fn eat(&mut self, c: u8) -> Result<(), String> {
        if self.i < self.b.len() && self.b[self.i] == c {
            self.i += 1;
            Ok(())
        } else {
            Err(format!("expected '{}' at {}", c as char, self.i))
        }
    }
    fn value(&mut self) -> Result<J, String> {
        self.ws();
        if self.i >= self.b.len() {
            return Err("eof".into());
        }
        match self.b[self.i] {
            b'{' => {
                self.i += 1;
                let mut m = BTreeMap::new();
                self.ws();
                if self.i < self.b.len() && self.b[self.i] == b'}' {
                    self.i += 1;
                    return Ok(J::Obj(m));
                }
                loop {
                    self.ws();
                    let k = self.string()?;
                    self.ws();
                    self.eat(b':')?;
                    let v = self.value()?;
                    m.insert(k, v);
                    self.ws();
                    if self.i < self.b.len() && self.b[self.i] == b',' {
                        self.i += 1;
                        continue;
                    }
                    self.eat(b'}')?;
                    return Ok(J::Obj(m));
                }
            }
            b'[' => {
                self.i += 1;
                let mut a = Vec::new();
                self.ws();
                if self.i < self.b.len() && self.b[self.i] == b']' {
                    self.i += 1;
                    return Ok(J::Arr(a));
                }
                loop {
                    a.push(self.value()?);
                    self.ws();
                    if self.i < self.b.len() && self.b[self.i] == b',' {
                        self.i += 1;
                        continue;
                    }
                    self.eat(b']')?;
                    return Ok(J::Arr(a));
                }
            }
            b'"' => Ok(J::Str(self.string()?)),
            b't' => self.lit("true", J::Bool(true)),
            b'f' => self.lit("false", J::Bool(false)),
            b'n' => self.lit("null", J::Null),
            _ => self.number(),
        }
    }
    fn lit(&mut self, w: &str, v: J) -> Result<J, String> {
        if self.b[self.i..].starts_with(w.as_bytes()) {
            self.i += w.len();
            Ok(v)
        } else {
            Err(format!("bad literal at {}", self.i))
        }
    }
    fn number(&mut self) -> Result<J, String> {
        let st = self.i;
        let mut float = false;
        while self.i < self.b.len() {
            match self.b[self.i] {
                b'0'..=b'9' | b'-' | b'+' => self.i += 1,
                b'.' | b'e' | b'E' => {
                    float = true;
                    self.i += 1
                }
                _ => break,
            }
        }
        let t = std::str::from_utf8(&self.b[st..self.i]).map_err(|e| e.to_string())?;
        if float {
            t.parse::<f64>().map(J::Float).map_err(|e| format!("{} at {}", e, st))
        } else {
            t.parse::<i128>().map(J::Int).map_err(|e| format!("{} at {}", e, st))
        }
    }
    fn string(&mut self) -> Result<String, String> {
        self.eat(b'"')?;
        let mut out = Vec::new();
        loop {
            if self.i >= self.b.len() {
                return Err("eof in string".into());
            }
            let c = self.b[self.i];
            self.i += 1;
            match c {
                b'"' => break,
                b'\\' => {
                    if self.i >= self.b.len() {
                        return Err("eof in escape".into());
                    }
                    let e = self.b[self.i];
                    self.i += 1;
                    match e {
                        b'n' => out.push(b'\n'),
                        b'r' => out.push(b'\r'),
                        b't' => out.push(b'\t'),
                        b'b' => out.push(8),
                        b'f' => out.push(12),
                        b'/' => out.push(b'/'),
                        b'\\' => out.push(b'\\'),
                        b'"' => out.push(b'"'),
                        b'u' => {
                            if self.i + 4 > self.b.len() {
                                return Err("bad \\u".into());
                            }
                            let h = std::str::from_utf8(&self.b[self.i..self.i + 4]).map_err(|e| e.to_string())?;
                            let cp = u32::from_str_radix(h, 16).map_err(|e| e.to_string())?;
                            self.i += 4;
                            let ch = char::from_u32(cp).unwrap_or('\u{fffd}');
                            let mut buf = [0u8; 4];
                            out.extend_from_slice(ch.encode_utf8(&mut buf).as_bytes());
                        }
                        _ => return Err("bad escape".into()),
                    }
                }
                c => out.push(c),
            }
        }
        String::from_utf8(out).map_err(|e| e.to_string())
    }
}
