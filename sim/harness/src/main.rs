//! mhsim: deterministic simulation with fault injection for micro-http.
#![allow(dead_code)]

mod conformance;
mod core;
mod crash;
mod engc;
mod flood;
mod fds;
mod enga;
mod gen;
mod json;
mod model;
mod obs;
mod props_a;
mod props_c;
mod props_w;
mod props_x;
mod rng;
mod runner;
mod simstream;

use crate::core::{Prop, Tier};
use crate::runner::{RunCfg, DEFAULT_SEED};

fn lookup(id: &str) -> Option<Box<dyn Prop>> {
    Some(match id {
        "C01" => Box::new(props_a::C01),
        "C02" => Box::new(props_a::C02),
        "C03" => Box::new(props_x::C03),
        "C04" => Box::new(props_a::C04),
        "C05" => Box::new(props_w::C05),
        "C06" => Box::new(props_w::C06),
        "C12" => Box::new(props_x::C12),
        "C07" => Box::new(props_c::C07),
        "C08" => Box::new(props_c::C08),
        "C09" => Box::new(props_c::C09),
        "C10" => Box::new(props_c::C10),
        "C18" => Box::new(props_c::C18),
        "C11" => Box::new(props_a::C11),
        "C13" => Box::new(props_a::C13),
        "C14" => Box::new(props_a::C14),
        _ => return None,
    })
}

fn arg(args: &[String], name: &str) -> Option<String> {
    args.iter().position(|a| a == name).and_then(|i| args.get(i + 1).cloned())
}

fn main() {
    // panics are caught and judged by the harness; keep stderr quiet
    std::panic::set_hook(Box::new(|_| {}));
    // C12 uses real descriptors (pipes): lift the soft descriptor limit to the hard one
    // SAFETY: plain getrlimit/setrlimit calls.
    #[cfg(not(miri))]
    unsafe {
        let mut rl: libc::rlimit = std::mem::zeroed();
        if libc::getrlimit(libc::RLIMIT_NOFILE, &mut rl) == 0 {
            rl.rlim_cur = rl.rlim_max;
            libc::setrlimit(libc::RLIMIT_NOFILE, &rl);
        }
    }
    // descriptor numbers 0..2 must be occupied, so that lowest-free allocation never hands them to a
    // run by accident (C12 frees number 0 deliberately, one run at a time)
    #[cfg(not(miri))]
    // SAFETY: plain fcntl/open on the standard descriptor numbers at start-up, single-threaded.
    unsafe {
        for fd in 0..3 {
            if libc::fcntl(fd, libc::F_GETFD) == -1 {
                let n = libc::open(b"/dev/null\0".as_ptr() as *const libc::c_char, libc::O_RDWR);
                if n >= 0 && n != fd {
                    libc::dup2(n, fd);
                    libc::close(n);
                }
            }
        }
    }
    let args: Vec<String> = std::env::args().collect();
    let cmd = args.get(1).map(|s| s.as_str()).unwrap_or("");
    let verif_dir = arg(&args, "--verif-dir").unwrap_or_else(|| "/verif".to_string());
    let code = match cmd {
        "run" => {
            let pid = arg(&args, "--prop").unwrap_or_default();
            let prop = match lookup(&pid) {
                Some(p) => p,
                None => {
                    eprintln!("HARNESS-ERROR: unknown property {}", pid);
                    std::process::exit(2);
                }
            };
            let tier = match arg(&args, "--tier").or_else(|| std::env::var("VERIF_TIER").ok()).as_deref() {
                Some("thorough") => Tier::Thorough,
                _ => Tier::Quick,
            };
            let seed = arg(&args, "--seed")
                .or_else(|| std::env::var("VERIF_SEED").ok())
                .and_then(|s| s.trim().parse::<u64>().ok())
                .unwrap_or(DEFAULT_SEED);
            let threads = arg(&args, "--threads")
                .and_then(|s| s.parse().ok())
                .unwrap_or_else(|| std::thread::available_parallelism().map(|n| n.get()).unwrap_or(4).min(16));
            // server-level verdicts are relative to the stub: check it against the real kernel first
            let mut conf = None;
            if prop.needs_conformance() {
                let r = conformance::run();
                if !r.mismatches.is_empty() {
                    for m in r.mismatches.iter().take(10) {
                        println!("MISMATCH {}", m);
                    }
                    eprintln!("HARNESS-ERROR: simkernel does not conform to the real kernel ({} mismatches)", r.mismatches.len());
                    std::process::exit(2);
                }
                conf = Some(conformance::to_json(&r));
            }
            let scale: f64 = arg(&args, "--runs-scale").and_then(|s| s.parse().ok()).unwrap_or(1.0);
            let cfg = RunCfg {
                tier,
                seed,
                runs: arg(&args, "--runs").and_then(|s| s.parse().ok()).or_else(|| {
                    if scale != 1.0 {
                        Some(((prop.runs(tier) as f64) * scale) as u64)
                    } else {
                        None
                    }
                }),
                threads,
                budget_s: arg(&args, "--budget-s")
                    .or_else(|| std::env::var("VERIF_BUDGET_S").ok())
                    .and_then(|s| s.parse().ok())
                    .unwrap_or(if tier == Tier::Quick { 150.0 } else { 1500.0 }),
                verif_dir,
                write_evidence: !args.iter().any(|a| a == "--no-evidence"),
                first: arg(&args, "--first").and_then(|s| s.parse().ok()).unwrap_or(0),
                conformance: conf,
                quiet: false,
                summary_out: arg(&args, "--summary-out"),
                include_summary: arg(&args, "--include-summary"),
                include_miri: arg(&args, "--include-miri"),
            };
            runner::run_check(prop.as_ref(), &cfg)
        }
        "replay" => {
            crash::install();
            crash::enter(255, 0);
            let path = args.get(2).cloned().unwrap_or_default();
            let mut replayed_prop = "?".to_string();
            if let Ok(t) = std::fs::read_to_string(&path) {
                if let Ok(j) = json::parse(&t) {
                    if let Some(p) = j.get("property").and_then(|x| x.str()) {
                        replayed_prop = p.to_string();
                    }
                    if let Some(w) = j.get("window").and_then(|x| x.usize()) {
                        if w != model::WINDOW {
                            eprintln!("HARNESS-ERROR: this replay was recorded with a {}-byte receive window; this binary has {} (./check replay picks the right build)", w, model::WINDOW);
                            std::process::exit(2);
                        }
                    }
                }
            }
            // a replayed hang must be reported as one, not hang the replayer
            {
                let p2 = path.clone();
                let slot = simkernel::heartbeat::slot();
                std::thread::spawn(move || {
                    // no heartbeat for 25 s = hang (a long replay on a loaded machine is not one)
                    let mut last = simkernel::heartbeat::read(slot);
                    let mut since = std::time::Instant::now();
                    loop {
                        std::thread::sleep(std::time::Duration::from_millis(500));
                        let b = simkernel::heartbeat::read(slot);
                        if b != last {
                            last = b;
                            since = std::time::Instant::now();
                        }
                        if since.elapsed() > std::time::Duration::from_secs(25) {
                            println!("VIOLATION property={} replay={}", replayed_prop, p2);
                            println!("  class={}:hang detail=the replayed run made no progress for 25 s", replayed_prop);
                            std::process::exit(1);
                        }
                    }
                });
            }
            // execute on a thread with the same (default) stack size as the search workers, so that a
            // stack overflow found by a worker reproduces here; heartbeats go to this thread's slot
            let replay_result = {
                let p3 = path.clone();
                std::thread::scope(|sc| {
                    sc.spawn(|| {
                        crash::enter(255, 0);
                        runner::replay_file(&lookup, &p3)
                    })
                    .join()
                    .unwrap_or_else(|_| Err("the replay thread panicked outside catch_unwind".to_string()))
                })
            };
            match replay_result {
                Ok((pid, Some(v), expected)) => {
                    println!("VIOLATION property={} replay={}", pid, path);
                    println!("  class={} step={}", v.class, v.step);
                    println!("  detail={}", v.detail);
                    if let Some(e) = expected {
                        if e != v.class {
                            println!("  note: recorded signature was {}", e);
                        }
                    }
                    1
                }
                Ok((pid, None, _)) => {
                    println!("property={} replay={} : no violation", pid, path);
                    0
                }
                Err(e) => {
                    eprintln!("HARNESS-ERROR: {}", e);
                    2
                }
            }
        }
        "conformance" => {
            if args.iter().any(|a| a == "--show") { conformance::show_one(); }
            let r = conformance::run();
            for m in r.mismatches.iter().take(40) {
                println!("MISMATCH {}", m);
            }
            println!("conformance: {} scenarios, {} mismatches", r.scenarios, r.mismatches.len());
            if r.mismatches.is_empty() {
                0
            } else {
                eprintln!("HARNESS-ERROR: simkernel does not conform to the real kernel");
                2
            }
        }
        "exec" => {
            // execute one generated case (debugging aid): mhsim exec --prop Cxx --index i
            let pid = arg(&args, "--prop").unwrap_or_default();
            let prop = lookup(&pid).expect("property");
            let index: u64 = arg(&args, "--index").and_then(|s| s.parse().ok()).unwrap_or(0);
            let seed = arg(&args, "--seed").and_then(|s| s.parse().ok()).unwrap_or(DEFAULT_SEED);
            let mut rng = rng::Rng::new(rng::run_seed(seed, &pid, index));
            let case = prop.gen(&mut rng, Tier::Quick, index);
            let mut st = core::Stats::default();
            let out = prop.exec(&case, &mut st);
            println!("{:?}", out.map(|o| (o.violation, o.nontrivial)));
            println!("probes {:?}", st.probes);
            0
        }
        "gen" => {
            let pid = arg(&args, "--prop").unwrap_or_default();
            let prop = lookup(&pid).expect("property");
            let index: u64 = arg(&args, "--index").and_then(|s| s.parse().ok()).unwrap_or(0);
            let seed = arg(&args, "--seed").and_then(|s| s.parse().ok()).unwrap_or(DEFAULT_SEED);
            let tier = if arg(&args, "--tier").as_deref() == Some("thorough") { Tier::Thorough } else { Tier::Quick };
            let mut rng = rng::Rng::new(rng::run_seed(seed, &pid, index));
            println!("{}", prop.gen(&mut rng, tier, index).to_string());
            0
        }
        _ => {
            eprintln!("usage: mhsim run --prop Cxx [--tier quick|thorough] [--seed N] [--runs N] [--threads N] | replay <file> | gen --prop Cxx --index i");
            2
        }
    };
    std::process::exit(code);
}
