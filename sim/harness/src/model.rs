//! Reference models, written from the property statements and the crate documentation,
//! with none of the library's cursor / window logic:
//!
//!  * `model_stream`: whole-stream request slicer (oracle for C02, C04, C13, C14 and the
//!    server-level "what should have been yielded" question),
//!  * `serialize_response`: reference response serialiser (C05, C06),
//!  * `read_responses`: independent response reader (C05, C07, C08, C13 ...).

/// the connection's receive window / line limit: 1024 in the shipped build, 64 in the
/// `micro_http_verif = "small"` build (hook H3)
#[cfg(not(micro_http_verif = "small"))]
pub const WINDOW: usize = 1024;
#[cfg(micro_http_verif = "small")]
pub const WINDOW: usize = 64;

#[derive(Clone, Debug, PartialEq, Eq)]
pub enum EK {
    BodyWithoutPending,
    HdrInvalidFormat,
    HdrInvalidUtf8,
    HdrInvalidValue,
    HdrSizeLimit,
    HdrUnsupportedFeature,
    HdrUnsupportedName,
    HdrUnsupportedValue,
    HeadersWithoutPending,
    InvalidMethod,
    InvalidVersion,
    InvalidRequest,
    InvalidUri,
    Overflow,
    Underflow,
    SizeLimit(usize, usize),
}

impl EK {
    pub fn code(&self) -> u64 {
        match self {
            EK::BodyWithoutPending => 1,
            EK::HdrInvalidFormat => 2,
            EK::HdrInvalidUtf8 => 3,
            EK::HdrInvalidValue => 4,
            EK::HdrSizeLimit => 5,
            EK::HdrUnsupportedFeature => 6,
            EK::HdrUnsupportedName => 7,
            EK::HdrUnsupportedValue => 8,
            EK::HeadersWithoutPending => 9,
            EK::InvalidMethod => 10,
            EK::InvalidVersion => 11,
            EK::InvalidRequest => 12,
            EK::InvalidUri => 13,
            EK::Overflow => 14,
            EK::Underflow => 15,
            EK::SizeLimit(_, _) => 16,
        }
    }
}

/// What a delivered request looks like through public accessors.
#[derive(Clone, Debug, PartialEq, Eq)]
pub struct ReqObs {
    /// 0 GET, 1 PUT, 2 PATCH
    pub method: u8,
    /// 0 = HTTP/1.0, 1 = HTTP/1.1
    pub version: u8,
    /// raw URI (model) / not directly observable (library: filled from Debug when possible)
    pub uri: String,
    pub abs_path: String,
    pub content_length: u32,
    pub expect: bool,
    pub chunked: bool,
    /// 0 text/plain, 1 application/json
    pub accept: u8,
    pub custom: Vec<(String, String)>,
    pub body: Option<Vec<u8>>,
}

#[derive(Clone, Debug, PartialEq, Eq)]
pub enum MEvent {
    Request(ReqObs),
    /// interim 100 response queued, with the request's version
    Continue(u8),
    Error(EK),
}

#[derive(Clone, Debug)]
pub struct ModelOut {
    /// (prefix length at which the event is determined, event); stream order
    pub events: Vec<(usize, MEvent)>,
    /// the properties are silent about something in this stream (e.g. `Content-Length: +5`)
    pub unspecified: bool,
    /// structure, for aimed cuts and probes: positions just after each line end,
    /// header-block ends, request ends, line starts
    pub line_ends: Vec<usize>,
    pub header_ends: Vec<usize>,
    pub request_ends: Vec<usize>,
    pub line_starts: Vec<usize>,
}

pub fn abs_path_of(uri: &str) -> String {
    const P: &str = "http://";
    if let Some(rest) = uri.strip_prefix(P) {
        match rest.find('/') {
            Some(k) => rest[k..].to_string(),
            None => String::new(),
        }
    } else if uri.starts_with('/') {
        uri.to_string()
    } else {
        String::new()
    }
}

fn find_crlf(b: &[u8], from: usize) -> Option<usize> {
    if b.len() < 2 {
        return None;
    }
    let mut i = from;
    while i + 1 < b.len() {
        if b[i] == b'\r' && b[i + 1] == b'\n' {
            return Some(i);
        }
        i += 1;
    }
    None
}

#[derive(Clone, Debug, Default)]
pub struct HdrState {
    pub content_length: u32,
    pub expect: bool,
    pub chunked: bool,
    pub accept: u8,
    pub custom: Vec<(String, String)>,
    /// name -> position in `custom` (keeps blocks of tens of thousands of lines linear)
    pub custom_index: std::collections::BTreeMap<String, usize>,
}

pub enum LineRes {
    Ok,
    /// ignored (unsupported value)
    Ignored,
    Err(EK),
    Unspecified,
}

fn media(v: &str) -> Option<u8> {
    match v.trim() {
        "text/plain" => Some(0),
        "application/json" => Some(1),
        _ => None,
    }
}

/// The header rules (C15's statement), applied to one header line without its CRLF.
pub fn model_header_line(h: &mut HdrState, line: &[u8]) -> LineRes {
    let text = match std::str::from_utf8(line) {
        Ok(t) => t,
        Err(_) => return LineRes::Err(EK::HdrInvalidUtf8),
    };
    let colon = match text.find(':') {
        Some(c) => c,
        None => return LineRes::Err(EK::HdrInvalidFormat),
    };
    let name = text[..colon].trim();
    let value = text[colon + 1..].trim();
    let lname = name.to_ascii_lowercase();
    match lname.as_str() {
        "content-length" => {
            // "an unsigned 32-bit decimal": digits only is clearly one; a leading '+' is
            // something the statement does not settle.
            if !value.is_empty() && value.bytes().all(|c| c.is_ascii_digit()) {
                // leading zeros allowed (007); overflow rejects
                let mut acc: u64 = 0;
                for c in value.bytes() {
                    acc = acc * 10 + (c - b'0') as u64;
                    if acc > u32::MAX as u64 {
                        return LineRes::Err(EK::HdrInvalidValue);
                    }
                }
                h.content_length = acc as u32;
                LineRes::Ok
            } else if value.starts_with('+') && value.len() > 1 && value[1..].bytes().all(|c| c.is_ascii_digit()) {
                LineRes::Unspecified
            } else {
                LineRes::Err(EK::HdrInvalidValue)
            }
        }
        "content-type" => {
            if media(value).is_some() {
                LineRes::Ok
            } else {
                LineRes::Ignored
            }
        }
        "accept" => match media(value) {
            Some(m) => {
                h.accept = m;
                LineRes::Ok
            }
            None => LineRes::Ignored,
        },
        "transfer-encoding" => match value {
            "chunked" => {
                h.chunked = true;
                LineRes::Ok
            }
            "identity" => LineRes::Ok,
            _ => LineRes::Ignored,
        },
        "expect" => match value {
            "100-continue" => {
                h.expect = true;
                LineRes::Ok
            }
            _ => LineRes::Ignored,
        },
        "server" => LineRes::Ok,
        "accept-encoding" => {
            if value.is_empty() {
                return LineRes::Err(EK::InvalidRequest);
            }
            let mentions_identity = value.contains("identity");
            for item in value.split(',') {
                let item = item.trim();
                if item == "identity;q=0" {
                    return LineRes::Err(EK::HdrInvalidValue);
                }
                if item == "*;q=0" && !mentions_identity {
                    return LineRes::Err(EK::HdrInvalidValue);
                }
            }
            LineRes::Ok
        }
        _ => {
            // custom entry, trimmed name and value, last occurrence wins
            if let Some(&k) = h.custom_index.get(name) {
                h.custom[k].1 = value.to_string();
            } else {
                h.custom_index.insert(name.to_string(), h.custom.len());
                h.custom.push((name.to_string(), value.to_string()));
            }
            LineRes::Ok
        }
    }
}

/// Parse a request line (without CRLF) by the stated grammar; error precedence
/// shape -> method -> URI -> version.
pub fn model_request_line(line: &[u8]) -> Result<(u8, String, u8), EK> {
    let sp1 = line.iter().position(|&c| c == b' ').ok_or(EK::InvalidRequest)?;
    let rest = &line[sp1 + 1..];
    let sp2 = rest.iter().position(|&c| c == b' ').ok_or(EK::InvalidRequest)?;
    let method = &line[..sp1];
    let uri = &rest[..sp2];
    let version = &rest[sp2 + 1..];
    let m = match method {
        b"GET" => 0,
        b"PUT" => 1,
        b"PATCH" => 2,
        _ => return Err(EK::InvalidMethod),
    };
    if uri.is_empty() {
        return Err(EK::InvalidUri);
    }
    let u = std::str::from_utf8(uri).map_err(|_| EK::InvalidUri)?.to_string();
    let v = match version {
        b"HTTP/1.0" => 0,
        b"HTTP/1.1" => 1,
        _ => return Err(EK::InvalidVersion),
    };
    Ok((m, u, v))
}

/// Whole-stream reference parser. `limit` = payload limit L, `window` = line limit
/// (1024 in the shipped build).
pub fn model_stream(s: &[u8], limit: usize, window: usize) -> ModelOut {
    model_stream_lim(s, &|_| limit, window)
}

/// As `model_stream`, with a payload limit that may change while the stream is received:
/// `limit_at(e)` = the limit in force when the header block ending at offset `e` completes.
pub fn model_stream_lim(s: &[u8], limit_at: &dyn Fn(usize) -> usize, window: usize) -> ModelOut {
    let mut out = ModelOut {
        events: Vec::new(),
        unspecified: false,
        line_ends: Vec::new(),
        header_ends: Vec::new(),
        request_ends: Vec::new(),
        line_starts: Vec::new(),
    };
    let mut pos = 0usize;
    'requests: loop {
        // ---- request line
        if pos >= s.len() {
            break;
        }
        out.line_starts.push(pos);
        let (line, next) = match take_line(s, pos, window) {
            Line::Complete(end) => (&s[pos..end], end + 2),
            Line::TooLong(at) => {
                out.events.push((at, MEvent::Error(EK::InvalidRequest)));
                break;
            }
            Line::Incomplete => break,
        };
        out.line_ends.push(next);
        let (method, uri, version) = match model_request_line(line) {
            Ok(x) => x,
            Err(e) => {
                out.events.push((next, MEvent::Error(e)));
                break;
            }
        };
        pos = next;
        // ---- headers
        let mut h = HdrState::default();
        loop {
            out.line_starts.push(pos);
            let (line, next) = match take_line(s, pos, window) {
                Line::Complete(end) => (&s[pos..end], end + 2),
                Line::TooLong(at) => {
                    out.events.push((at, MEvent::Error(EK::HdrSizeLimit)));
                    break 'requests;
                }
                Line::Incomplete => break 'requests,
            };
            out.line_ends.push(next);
            pos = next;
            if line.is_empty() {
                break;
            }
            match model_header_line(&mut h, line) {
                LineRes::Ok | LineRes::Ignored => {}
                LineRes::Err(e) => {
                    out.events.push((pos, MEvent::Error(e)));
                    break 'requests;
                }
                LineRes::Unspecified => {
                    out.unspecified = true;
                    break 'requests;
                }
            }
        }
        out.header_ends.push(pos);
        let n = h.content_length as usize;
        let mut custom = h.custom.clone();
        custom.sort();
        let mut req = ReqObs {
            method,
            version,
            abs_path: abs_path_of(&uri),
            uri,
            content_length: h.content_length,
            expect: h.expect,
            chunked: h.chunked,
            accept: h.accept,
            custom,
            body: None,
        };
        if n == 0 {
            out.request_ends.push(pos);
            out.events.push((pos, MEvent::Request(req)));
            continue;
        }
        let limit = limit_at(pos);
        if n > limit {
            out.events.push((pos, MEvent::Error(EK::SizeLimit(limit, n))));
            break;
        }
        if h.expect {
            out.events.push((pos, MEvent::Continue(version)));
        }
        if s.len() - pos < n {
            break;
        }
        req.body = Some(s[pos..pos + n].to_vec());
        pos += n;
        out.request_ends.push(pos);
        out.events.push((pos, MEvent::Request(req)));
    }
    out
}

enum Line {
    /// index of the CR of the terminating CRLF
    Complete(usize),
    /// prefix length at which "longer than the window" is determined
    TooLong(usize),
    Incomplete,
}

/// A line starting at `pos` is acceptable iff line + CRLF <= window bytes.
fn take_line(s: &[u8], pos: usize, window: usize) -> Line {
    match find_crlf(s, pos) {
        Some(cr) if cr + 2 - pos <= window => Line::Complete(cr),
        _ => {
            if s.len() - pos >= window {
                Line::TooLong(pos + window)
            } else {
                Line::Incomplete
            }
        }
    }
}

// ------------------------------------------------------------------ responses

#[derive(Clone, Debug, PartialEq, Eq)]
pub struct RespSpec {
    pub version: u8,
    /// numeric status
    pub code: u16,
    pub server: String,
    pub allow: Vec<u8>,
    pub deprecation: bool,
    /// Some(len) when a length is present
    pub content_length: Option<i64>,
    /// 0 text/plain, 1 application/json
    pub content_type: u8,
    pub accept_encoding: bool,
    pub body: Option<Vec<u8>>,
}

pub const STATUS_CODES: [u16; 11] = [100, 200, 204, 400, 401, 404, 405, 413, 500, 501, 503];

impl RespSpec {
    pub fn new(version: u8, code: u16) -> Self {
        RespSpec {
            version,
            code,
            server: "Firecracker API".to_string(),
            allow: vec![],
            deprecation: false,
            content_length: if code == 100 || code == 204 { None } else { Some(0) },
            content_type: 1,
            accept_encoding: false,
            body: None,
        }
    }
    pub fn set_body(&mut self, b: Vec<u8>) {
        self.content_length = Some(b.len() as i64);
        self.body = Some(b);
    }
}

pub fn version_bytes(v: u8) -> &'static [u8] {
    if v == 0 {
        b"HTTP/1.0"
    } else {
        b"HTTP/1.1"
    }
}
pub fn method_bytes(m: u8) -> &'static [u8] {
    match m {
        0 => b"GET",
        1 => b"PUT",
        _ => b"PATCH",
    }
}

/// Reference serialiser, from C05's statement.
pub fn serialize_response(r: &RespSpec) -> Vec<u8> {
    let mut o = Vec::new();
    o.extend_from_slice(version_bytes(r.version));
    o.push(b' ');
    o.extend_from_slice(format!("{:03}", r.code).as_bytes());
    o.extend_from_slice(b" \r\n");
    o.extend_from_slice(b"Server: ");
    o.extend_from_slice(r.server.as_bytes());
    o.extend_from_slice(b"\r\nConnection: keep-alive\r\n");
    if !r.allow.is_empty() {
        o.extend_from_slice(b"Allow: ");
        for (k, m) in r.allow.iter().enumerate() {
            if k > 0 {
                o.extend_from_slice(b", ");
            }
            o.extend_from_slice(method_bytes(*m));
        }
        o.extend_from_slice(b"\r\n");
    }
    if r.deprecation {
        o.extend_from_slice(b"Deprecation: true\r\n");
    }
    if let Some(n) = r.content_length {
        o.extend_from_slice(b"Content-Type: ");
        o.extend_from_slice(if r.content_type == 0 { b"text/plain" as &[u8] } else { b"application/json" });
        o.extend_from_slice(b"\r\nContent-Length: ");
        o.extend_from_slice(n.to_string().as_bytes());
        o.extend_from_slice(b"\r\n");
        if r.accept_encoding {
            o.extend_from_slice(b"Accept-Encoding: identity\r\n");
        }
    }
    o.extend_from_slice(b"\r\n");
    if let Some(b) = &r.body {
        o.extend_from_slice(b);
    }
    o
}

#[derive(Clone, Debug, PartialEq, Eq)]
pub struct RespObs {
    pub version: u8,
    pub code: u16,
    /// header (name, value) pairs in order, value without surrounding spaces
    pub headers: Vec<(String, String)>,
    pub body: Vec<u8>,
    /// total length in the byte stream
    pub len: usize,
}

impl RespObs {
    pub fn header(&self, name: &str) -> Option<&str> {
        self.headers
            .iter()
            .find(|h| h.0.eq_ignore_ascii_case(name))
            .map(|h| h.1.as_str())
    }
}

#[derive(Debug, PartialEq, Eq)]
pub enum ReadErr {
    /// not enough bytes yet: a proper prefix of a response
    Incomplete,
    Malformed(String),
}

/// Independent reader for one response at the start of `b`.
pub fn read_response(b: &[u8]) -> Result<RespObs, ReadErr> {
    let sl_end = match find_crlf(b, 0) {
        Some(e) => e,
        None => {
            // a status line is short; anything long without CRLF is garbage
            if b.len() > 64 {
                return Err(ReadErr::Malformed("no status line".into()));
            }
            // must still look like a prefix of "HTTP/1.x NNN"
            let pat = b"HTTP/1.";
            let k = b.len().min(pat.len());
            if b[..k] != pat[..k] {
                return Err(ReadErr::Malformed("bad status line start".into()));
            }
            return Err(ReadErr::Incomplete);
        }
    };
    let sl = &b[..sl_end];
    if sl.len() < 12 {
        return Err(ReadErr::Malformed(format!("short status line {:?}", String::from_utf8_lossy(sl))));
    }
    let version = match &sl[..8] {
        b"HTTP/1.0" => 0,
        b"HTTP/1.1" => 1,
        _ => return Err(ReadErr::Malformed("bad version".into())),
    };
    if sl[8] != b' ' || !sl[9..12].iter().all(|c| c.is_ascii_digit()) {
        return Err(ReadErr::Malformed("bad status".into()));
    }
    let code = (sl[9] - b'0') as u16 * 100 + (sl[10] - b'0') as u16 * 10 + (sl[11] - b'0') as u16;
    // reason phrase (possibly empty), after an optional SP
    if sl.len() > 12 && sl[12] != b' ' {
        return Err(ReadErr::Malformed("junk after status".into()));
    }
    let mut pos = sl_end + 2;
    let mut headers = Vec::new();
    let mut clen: Option<usize> = None;
    loop {
        let e = match find_crlf(b, pos) {
            Some(e) => e,
            None => {
                if b.len() - pos > 4096 {
                    return Err(ReadErr::Malformed("endless header".into()));
                }
                return Err(ReadErr::Incomplete);
            }
        };
        let line = &b[pos..e];
        pos = e + 2;
        if line.is_empty() {
            break;
        }
        let t = std::str::from_utf8(line).map_err(|_| ReadErr::Malformed("header not utf8".into()))?;
        let c = t.find(':').ok_or_else(|| ReadErr::Malformed(format!("header without colon: {:?}", t)))?;
        let name = t[..c].to_string();
        let value = t[c + 1..].trim_matches(' ').to_string();
        if name.eq_ignore_ascii_case("content-length") {
            if clen.is_some() {
                return Err(ReadErr::Malformed("two content-lengths".into()));
            }
            clen = Some(value.parse::<usize>().map_err(|_| ReadErr::Malformed(format!("bad content-length {:?}", value)))?);
        }
        headers.push((name, value));
    }
    let n = clen.unwrap_or(0);
    if b.len() - pos < n {
        return Err(ReadErr::Incomplete);
    }
    let body = b[pos..pos + n].to_vec();
    Ok(RespObs { version, code, headers, body, len: pos + n })
}

/// Read as many complete responses as `b` holds. Returns them plus the number of
/// bytes consumed; the rest must be a proper prefix of a response (or empty).
pub fn read_responses(b: &[u8]) -> Result<(Vec<RespObs>, usize), String> {
    let mut v = Vec::new();
    let mut pos = 0;
    while pos < b.len() {
        match read_response(&b[pos..]) {
            Ok(r) => {
                pos += r.len;
                v.push(r);
            }
            Err(ReadErr::Incomplete) => break,
            Err(ReadErr::Malformed(m)) => return Err(format!("at byte {}: {}", pos, m)),
        }
    }
    Ok((v, pos))
}
