//! Adaptors between the library's public API and the harness' observation types.
//! Only public accessors are used.

use std::cell::RefCell;
use std::fs::File;
use std::panic::{catch_unwind, AssertUnwindSafe};
use std::rc::Rc;

use micro_http::{
    Body, ConnectionError, HttpConnection, HttpHeaderError, MediaType, Method, Request, RequestError, Response,
    StatusCode, Version,
};

use crate::model::{ReqObs, RespSpec, EK};
use crate::simstream::{RdOp, Shared, SimStream, WrOp};

pub fn ek_of(e: &RequestError) -> EK {
    match e {
        RequestError::BodyWithoutPendingRequest => EK::BodyWithoutPending,
        RequestError::HeaderError(h) => match h {
            HttpHeaderError::InvalidFormat(_) => EK::HdrInvalidFormat,
            HttpHeaderError::InvalidUtf8String(_) => EK::HdrInvalidUtf8,
            HttpHeaderError::InvalidValue(_, _) => EK::HdrInvalidValue,
            HttpHeaderError::SizeLimitExceeded(_) => EK::HdrSizeLimit,
            HttpHeaderError::UnsupportedFeature(_, _) => EK::HdrUnsupportedFeature,
            HttpHeaderError::UnsupportedName(_) => EK::HdrUnsupportedName,
            HttpHeaderError::UnsupportedValue(_, _) => EK::HdrUnsupportedValue,
        },
        RequestError::HeadersWithoutPendingRequest => EK::HeadersWithoutPending,
        RequestError::InvalidHttpMethod(_) => EK::InvalidMethod,
        RequestError::InvalidHttpVersion(_) => EK::InvalidVersion,
        RequestError::InvalidRequest => EK::InvalidRequest,
        RequestError::InvalidUri(_) => EK::InvalidUri,
        RequestError::Overflow => EK::Overflow,
        RequestError::Underflow => EK::Underflow,
        RequestError::SizeLimitExceeded(a, b) => EK::SizeLimit(*a, *b),
    }
}

/// Observation of a delivered request through public accessors. `uri` holds the Debug
/// rendering of `uri()` (there is no accessor for the raw string).
pub fn obs_of(r: &Request) -> ReqObs {
    let mut custom: Vec<(String, String)> =
        r.headers.custom_entries().iter().map(|(k, v)| (k.clone(), v.clone())).collect();
    custom.sort();
    ReqObs {
        method: match r.method() {
            Method::Get => 0,
            Method::Put => 1,
            Method::Patch => 2,
        },
        version: match r.http_version() {
            Version::Http10 => 0,
            Version::Http11 => 1,
        },
        uri: format!("{:?}", r.uri()),
        // get_abs_path is itself code under test: a panic in it must not take the harness down
        abs_path: catch_unwind(AssertUnwindSafe(|| r.uri().get_abs_path().to_string()))
            .unwrap_or_else(|_| "\u{0}<get_abs_path panicked>".to_string()),
        content_length: r.headers.content_length(),
        expect: r.headers.expect(),
        chunked: r.headers.chunked(),
        accept: match r.headers.accept() {
            MediaType::PlainText => 0,
            MediaType::ApplicationJson => 1,
        },
        custom,
        body: r.body.as_ref().map(|b| b.raw().to_vec()),
    }
}

/// Does the library's observation match what the model expects? (uri by containment of the
/// Debug-escaped expected string, so a field rename cannot raise an alarm)
pub fn matches_model(model: &ReqObs, lib: &ReqObs) -> Result<(), String> {
    if model.method != lib.method {
        return Err(format!("method: expected {} got {}", model.method, lib.method));
    }
    if model.version != lib.version {
        return Err(format!("version: expected {} got {}", model.version, lib.version));
    }
    if model.abs_path != lib.abs_path {
        return Err(format!("abs_path: expected {:?} got {:?}", model.abs_path, lib.abs_path));
    }
    let quoted = format!("{:?}", model.uri);
    if !lib.uri.contains(&quoted) {
        return Err(format!("uri: expected {} inside {}", quoted, lib.uri));
    }
    if model.content_length != lib.content_length {
        return Err(format!("content_length: expected {} got {}", model.content_length, lib.content_length));
    }
    if model.expect != lib.expect {
        return Err(format!("expect flag: expected {} got {}", model.expect, lib.expect));
    }
    if model.chunked != lib.chunked {
        return Err(format!("chunked flag: expected {} got {}", model.chunked, lib.chunked));
    }
    if model.accept != lib.accept {
        return Err(format!("accept: expected {} got {}", model.accept, lib.accept));
    }
    if model.custom != lib.custom {
        return Err(format!("custom headers: expected {:?} got {:?}", model.custom, lib.custom));
    }
    if model.body != lib.body {
        return Err(format!(
            "body: expected {:?} bytes got {:?} bytes (or content differs)",
            model.body.as_ref().map(|b| b.len()),
            lib.body.as_ref().map(|b| b.len())
        ));
    }
    Ok(())
}

#[derive(Clone, Debug, PartialEq, Eq)]
pub enum CallRes {
    Ok,
    Closed,
    Parse(EK),
    StreamRead(i32),
    InvalidWrite,
    StreamWrite,
    Panic(String),
}

impl CallRes {
    pub fn code(&self) -> u64 {
        match self {
            CallRes::Ok => 0,
            CallRes::Closed => 1,
            CallRes::Parse(e) => 100 + e.code(),
            CallRes::StreamRead(e) => 200 + *e as u64,
            CallRes::InvalidWrite => 2,
            CallRes::StreamWrite => 3,
            CallRes::Panic(_) => 4,
        }
    }
}

pub fn res_of(r: Result<(), ConnectionError>) -> CallRes {
    match r {
        Ok(()) => CallRes::Ok,
        Err(ConnectionError::ConnectionClosed) => CallRes::Closed,
        Err(ConnectionError::ParseError(e)) => CallRes::Parse(ek_of(&e)),
        Err(ConnectionError::StreamReadError(e)) => CallRes::StreamRead(e.errno()),
        Err(ConnectionError::InvalidWrite) => CallRes::InvalidWrite,
        Err(ConnectionError::StreamWriteError(_)) => CallRes::StreamWrite,
    }
}

pub fn panic_msg(p: Box<dyn std::any::Any + Send>) -> String {
    if let Some(s) = p.downcast_ref::<&str>() {
        s.to_string()
    } else if let Some(s) = p.downcast_ref::<String>() {
        s.clone()
    } else if let Some(w) = p.downcast_ref::<simkernel::WouldBlockForever>() {
        format!("would block for ever in {} on fd {}", w.syscall, w.fd)
    } else {
        "panic (non-string payload)".to_string()
    }
}

/// A connection over a scripted stream, with per-call accounting.
pub struct Conn {
    pub c: HttpConnection<SimStream>,
    pub sh: Rc<RefCell<Shared>>,
    /// receive / write calls made by the library during the last harness call
    pub last_recvs: u64,
    pub last_writes: u64,
}

impl Conn {
    pub fn new(input: Vec<u8>, limit: Option<usize>) -> Conn {
        let (st, sh) = SimStream::new(input);
        let mut c = HttpConnection::new(st);
        if let Some(l) = limit {
            c.set_payload_max_size(l);
        }
        Conn { c, sh, last_recvs: 0, last_writes: 0 }
    }

    pub fn pos(&self) -> usize {
        self.sh.borrow().pos
    }
    pub fn remaining(&self) -> usize {
        let s = self.sh.borrow();
        s.input.len() - s.pos
    }

    pub fn try_read(&mut self, op: RdOp) -> CallRes {
        let (r0, w0) = {
            let mut s = self.sh.borrow_mut();
            s.next_rd = Some(op);
            s.calls_in_op = 0;
            (s.recv_calls, s.write_calls)
        };
        let r = catch_unwind(AssertUnwindSafe(|| self.c.try_read()));
        let mut s = self.sh.borrow_mut();
        s.next_rd = None;
        self.last_recvs = s.recv_calls - r0;
        self.last_writes = s.write_calls - w0;
        match r {
            Ok(r) => res_of(r),
            Err(p) => CallRes::Panic(panic_msg(p)),
        }
    }

    pub fn try_write(&mut self, op: WrOp) -> CallRes {
        let (r0, w0) = {
            let mut s = self.sh.borrow_mut();
            s.next_wr = Some(op);
            s.calls_in_op = 0;
            (s.recv_calls, s.write_calls)
        };
        let r = catch_unwind(AssertUnwindSafe(|| self.c.try_write()));
        let mut s = self.sh.borrow_mut();
        s.next_wr = None;
        self.last_recvs = s.recv_calls - r0;
        self.last_writes = s.write_calls - w0;
        match r {
            Ok(r) => res_of(r),
            Err(p) => CallRes::Panic(panic_msg(p)),
        }
    }

    pub fn pop_all(&mut self) -> Vec<(ReqObs, Vec<File>)> {
        let mut v = Vec::new();
        while let Some(mut r) = self.c.pop_parsed_request() {
            let o = obs_of(&r);
            let files = std::mem::take(&mut r.files);
            v.push((o, files));
        }
        v
    }

    /// pop at most one parsed request (an owner that handles one request per wake-up)
    pub fn pop_one(&mut self) -> Vec<(ReqObs, Vec<File>)> {
        let mut v = Vec::new();
        if let Some(mut r) = self.c.pop_parsed_request() {
            let o = obs_of(&r);
            let files = std::mem::take(&mut r.files);
            v.push((o, files));
        }
        v
    }

    pub fn pending_write(&self) -> bool {
        self.c.pending_write()
    }

    /// write everything pending into the stream (accepting all) and return the new bytes
    pub fn drain_output(&mut self) -> Result<Vec<u8>, String> {
        let start = self.sh.borrow().accepted.len();
        let mut guard = 0;
        while self.c.pending_write() {
            match self.try_write(WrOp::Accept(usize::MAX)) {
                CallRes::Ok => {}
                other => return Err(format!("try_write while draining returned {:?}", other)),
            }
            guard += 1;
            if guard > 10_000 {
                return Err("draining output does not terminate".into());
            }
        }
        Ok(self.sh.borrow().accepted[start..].to_vec())
    }
}

pub fn status_of(code: u16) -> StatusCode {
    match code {
        100 => StatusCode::Continue,
        200 => StatusCode::OK,
        204 => StatusCode::NoContent,
        400 => StatusCode::BadRequest,
        401 => StatusCode::Unauthorized,
        404 => StatusCode::NotFound,
        405 => StatusCode::MethodNotAllowed,
        413 => StatusCode::PayloadTooLarge,
        500 => StatusCode::InternalServerError,
        501 => StatusCode::NotImplemented,
        _ => StatusCode::ServiceUnavailable,
    }
}

pub fn version_of(v: u8) -> Version {
    if v == 0 {
        Version::Http10
    } else {
        Version::Http11
    }
}

pub fn method_of(m: u8) -> Method {
    match m {
        0 => Method::Get,
        1 => Method::Put,
        _ => Method::Patch,
    }
}

/// A response built through the public API the simplest way that yields `spec`
/// (used where the build program itself is not under test).
pub fn simple_response(version: u8, code: u16, body: Option<&[u8]>) -> (Response, RespSpec) {
    let mut r = Response::new(version_of(version), status_of(code));
    let mut spec = RespSpec::new(version, code);
    if let Some(b) = body {
        r.set_body(Body::new(b.to_vec()));
        spec.set_body(b.to_vec());
    }
    (r, spec)
}
