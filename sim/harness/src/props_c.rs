//! Engine C properties: C07, C08, C09, C10, C18 (+ server-level parts of C04, C11, C13).

use crate::core::{removal_ranges, Prop, RunOut, Stats, Tier, Violation};
use crate::engc::{Accept, Flags, SStep, ServerSim, SrvCase, FULL_MSG};
use crate::gen::{self, GenCfg};
use crate::json::J;
use crate::model::{model_stream, MEvent, WINDOW};
use crate::rng::{Rng, Sig};

#[derive(Clone, Copy, Debug, PartialEq, Eq)]
pub enum Profile {
    WellBehaved,
    Hostile,
    Routing,
    Capacity,
    Kill,
    /// clients stay connected but send malformed / oversized requests between well-formed ones (C11, C04)
    Recovery,
    /// like Recovery, with payload declarations around per-connection limits (C04)
    Limits,
    /// well-behaved clients that mostly use Expect: 100-continue and wait for it (C13)
    Expect,
}

fn flags_for(prop: &'static str, profile: Profile) -> Flags {
    match profile {
        Profile::WellBehaved => Flags { poll_must_succeed: true, well_behaved: true, routing: true, capacity: true, witness: None, release: false, recovery: false, prop },
        Profile::Hostile => Flags { poll_must_succeed: true, well_behaved: false, routing: true, capacity: false, witness: Some(0), release: true, recovery: false, prop },
        Profile::Routing => Flags { poll_must_succeed: false, well_behaved: false, routing: true, capacity: false, witness: None, release: false, recovery: false, prop },
        Profile::Capacity => Flags { poll_must_succeed: false, well_behaved: false, routing: true, capacity: true, witness: None, release: true, recovery: false, prop },
        Profile::Kill => Flags { poll_must_succeed: false, well_behaved: false, routing: true, capacity: false, witness: None, release: false, recovery: false, prop },
        Profile::Recovery | Profile::Limits => {
            Flags { poll_must_succeed: true, well_behaved: false, routing: true, capacity: false, witness: None, release: false, recovery: true, prop }
        }
        Profile::Expect => Flags { poll_must_succeed: true, well_behaved: true, routing: true, capacity: true, witness: None, release: false, recovery: true, prop },
    }
}

struct GClient {
    hostile: bool,
    stalled: bool,
    /// (header end, request end, expects 100) per request in the script
    marks: Vec<(usize, usize, bool)>,
}

/// one request declaring a payload around the limit in force; the body is withheld, partial or complete
fn build_limit_script(rng: &mut Rng, id: usize, limit: usize) -> (Vec<u8>, Vec<(usize, usize, bool)>) {
    let mut s = Vec::new();
    let mut marks = Vec::new();
    let nreq = rng.range(1, 3);
    for k in 0..nreq {
        let tag = format!("c{}r{}", id, k);
        let cands: Vec<u64> = vec![0, 1, 5, limit.saturating_sub(1) as u64, limit as u64, (limit as u64).saturating_add(1), (limit as u64).saturating_mul(2).saturating_add(3), 4294967295];
        let n = (*rng.pick(&cands)).min(4294967295);
        let method = *rng.pick(&["GET", "PUT", "PATCH"]);
        let mut head = format!("{} /{} HTTP/1.1\r\n", method, tag);
        let expects = n > 0 && rng.chance(1, 4);
        if expects {
            head.push_str("Expect: 100-continue\r\n");
        }
        if n > 0 || rng.chance(1, 3) {
            head.push_str(&format!("Content-Length: {}\r\n", n));
        }
        head.push_str("\r\n");
        let start = s.len();
        s.extend(head.as_bytes());
        let hdr_end = s.len();
        // the body is only materialised when it is permitted and small; an oversized declaration is
        // sent without any body byte ("before any body byte is needed")
        if n as usize <= limit && n <= 6000 {
            let have = if rng.chance(1, 6) { rng.below(n as usize + 1) } else { n as usize };
            s.extend((0..have).map(|i| b'a' + (i % 26) as u8));
            marks.push((hdr_end, s.len(), expects && (n as usize) <= limit));
            if have < n as usize {
                break;
            }
        } else {
            marks.push((hdr_end, s.len(), false));
            if n as usize <= limit {
                // permitted but too large to materialise: stop the script here (request stays incomplete)
                break;
            }
        }
        let _ = start;
    }
    (s, marks)
}

fn build_script(rng: &mut Rng, id: usize, limit: usize, hostile: bool, nreq: usize, big_ok: bool, expect_bias: usize) -> (Vec<u8>, Vec<(usize, usize, bool)>) {
    let mut cfg = GenCfg::default_for(limit);
    cfg.corrupt = 0;
    cfg.truncate = 0;
    cfg.mutate = 0;
    cfg.random = 0;
    cfg.fatal_hdr = 0;
    cfg.allow_big = false;
    cfg.expect_bias = expect_bias;
    let mut s = Vec::new();
    let mut marks = Vec::new();
    for k in 0..nreq {
        let tag = format!("c{}r{}", id, k);
        let mut r = gen::gen_request(rng, &cfg, &tag);
        r.uri = format!("/{}", tag).into_bytes();
        // keep server-level bodies modest (multi-read bodies sometimes)
        let maxb = if big_ok && rng.chance(1, 10) { 3000 } else { 200 };
        if r.body.len() > maxb.min(limit) {
            let n = rng.below(maxb.min(limit) + 1);
            r.body.truncate(n);
            // rewrite the effective Content-Length
            r.headers.retain(|h| !String::from_utf8_lossy(&h.0).to_ascii_lowercase().trim_start().starts_with("content-length"));
            if n > 0 {
                r.headers.push((format!("Content-Length: {}", n).into_bytes(), b"\r\n".to_vec()));
            }
        }
        if r.body.is_empty() {
            r.headers.retain(|h| !String::from_utf8_lossy(&h.0).to_ascii_lowercase().trim_start().starts_with("content-length"));
        }
        if hostile && rng.chance(1, 3) {
            let which = rng.below(gen::N_CORRUPTIONS);
            if which != 18 {
                gen::corrupt(rng, &mut r, which);
            }
        }
        if hostile && rng.chance(1, 10) {
            r.headers.push((format!("Content-Length: {}", limit as u64 + 1 + rng.below(100) as u64).into_bytes(), b"\r\n".to_vec()));
        }
        let bytes = r.render();
        let head = bytes.len() - r.body.len();
        let expects = r.headers.iter().any(|h| {
            let t = String::from_utf8_lossy(&h.0).to_ascii_lowercase();
            t.trim_start().starts_with("expect") && t.contains("100-continue")
        }) && !r.body.is_empty();
        marks.push((s.len() + head, s.len() + bytes.len(), expects));
        s.extend(bytes);
    }
    (s, marks)
}

/// Draw a server history. The generator runs the simulation while drawing, so that it can
/// choose among enabled actions; the recorded step list is what gets executed / replayed.
pub fn gen_srv_case(rng: &mut Rng, profile: Profile, prop: &'static str) -> SrvCase {
    let caps_s2c = [160usize, 256, 512, 1024, 4096, 65536, 212_992];
    let caps_c2s = [48usize, 300, 1024, 4096, 212_992];
    let limit = if rng.chance(3, 4) { None } else { Some(*rng.pick(&[0usize, 8, 100, 1024, 4096])) };
    let mut case = SrvCase {
        cap_c2s: *rng.pick(&caps_c2s),
        cap_s2c: *rng.pick(&caps_s2c),
        quarter: rng.chance(1, 2),
        kill_switch: profile == Profile::Kill || rng.chance(1, 4),
        limit,
        scripts: Vec::new(),
        steps: Vec::new(),
        kill_at: None,
        kill_after_start: rng.chance(1, 3),
        fds_from_zero: rng.chance(1, 6),
        kill_first: rng.chance(1, 2),
        from_fd: rng.chance(1, 4),
        start_twice: rng.chance(1, 8),
        kill_twice: rng.chance(1, 8),
        placeholder0: rng.chance(1, 3),
        skip_start: false,
        fd_high: if rng.chance(1, 40) { 1 + rng.below(2) as u8 } else if rng.chance(1, 12) { 3 + rng.below(7) as u8 } else if rng.chance(1, 30) { 10 + rng.below(4) as u8 } else { 0 },
    };
    let mut st = Stats::default();
    let mut flags = flags_for(prop, profile);
    // while generating nothing is fatal except what stops the simulation anyway
    flags.poll_must_succeed = false;
    flags.well_behaved = profile == Profile::WellBehaved || profile == Profile::Expect;
    let mut sim = match ServerSim::new(&case, flags) {
        Ok(s) => s,
        Err(_) => return case,
    };
    // long histories: "marathon" = few clients, each pipelining tens of requests over hundreds of
    // steps; "churn" = dozens of short-lived clients, so that connection slots and descriptor
    // numbers are re-used many times and capacity is reached and regained repeatedly
    let marathon = matches!(profile, Profile::WellBehaved | Profile::Routing | Profile::Hostile | Profile::Recovery) && rng.chance(1, 60);
    let churn = matches!(profile, Profile::Capacity | Profile::Routing) && rng.chance(1, 25);
    let max_clients = match profile {
        _ if churn => 60,
        _ if marathon => rng.range(1, 3),
        Profile::WellBehaved => rng.range(1, 4),
        Profile::Hostile => rng.range(2, 4),
        Profile::Routing => rng.range(2, 8),
        Profile::Capacity => 13,
        Profile::Kill => rng.range(1, 12),
        Profile::Recovery | Profile::Limits => rng.range(1, 3),
        Profile::Expect => rng.range(1, 3),
    };
    let max_active = match profile {
        Profile::Routing => 4,
        _ => 13,
    };
    let calm = matches!(profile, Profile::Recovery | Profile::Limits | Profile::Expect);
    let flush_enabled = !calm && (profile == Profile::WellBehaved && rng.chance(3, 10) || (profile != Profile::WellBehaved && rng.chance(1, 5)));
    let faults_enabled = matches!(profile, Profile::Hostile | Profile::Routing) && rng.chance(1, 2);
    let eintr_enabled = profile != Profile::WellBehaved && profile != Profile::Expect && rng.chance(1, 2);
    let shuffle = rng.chance(3, 4);
    // in a quarter of the histories simulated time passes between steps and the wall clock is stepped
    let time_passes = rng.chance(1, 4);
    let big_responses = rng.chance(1, 3);
    let nsteps = match profile {
        _ if churn => rng.range(400, 1000),
        _ if marathon => rng.range(300, 900),
        Profile::Capacity => rng.range(40, 260),
        _ => rng.range(8, 160),
    };
    let kill_pos = if profile == Profile::Kill { Some(rng.below(nsteps)) } else { None };
    // the server process forks once somewhere in the history (the child keeps what it inherited)
    let mut forks_left = if matches!(profile, Profile::Hostile | Profile::Routing | Profile::Capacity | Profile::Kill) && rng.chance(1, 10) { 1 } else { 0 };
    let mut gcs: Vec<GClient> = Vec::new();
    let mut cur_limit = limit.unwrap_or(51200);
    let push = |sim: &mut ServerSim, case: &mut SrvCase, s: SStep, st: &mut Stats| -> bool {
        case.steps.push(s.clone());
        match sim.step(&s, st) {
            Ok(_) => true,
            Err(_) => false,
        }
    };
    let mut alive = true;
    let mut i = 0;
    while alive && i < nsteps {
        i += 1;
        if Some(i) == kill_pos {
            alive = push(&mut sim, &mut case, SStep::Kill, &mut st);
            // afterwards: polls (and a few other actions)
            let extra = rng.range(3, 6);
            for _ in 0..extra {
                if !alive {
                    break;
                }
                let key = if shuffle { rng.next() | 1 } else { 0 };
                alive = push(&mut sim, &mut case, SStep::Poll { key, eintr: false }, &mut st);
            }
            break;
        }
        let readable = sim.readable();
        let nclients = gcs.len();
        let active = sim.clients.values().filter(|c| !c.closed).count();
        let can_connect = nclients < max_clients && active < max_active;
        // candidates
        let senders: Vec<usize> = (0..nclients)
            .filter(|c| {
                let cl = &sim.clients[c];
                !cl.closed && !cl.shut_wr && cl.off < case.scripts[*c].len()
            })
            .collect();
        let readers: Vec<usize> = (0..nclients)
            .filter(|c| {
                let cl = &sim.clients[c];
                !cl.closed && !cl.shut_rd && !gcs[*c].stalled
            })
            .collect();
        // in the calm profiles clients misbehave only in WHAT they send, never by closing or stalling
        let hostiles: Vec<usize> = if calm { vec![] } else { (0..nclients).filter(|c| gcs[*c].hostile && !sim.clients[c].closed).collect() };
        let w_poll = if readable { 45 } else { 0 };
        let w_connect = if can_connect {
            if profile == Profile::Capacity {
                30
            } else {
                8
            }
        } else {
            0
        };
        let w_send = if senders.is_empty() { 0 } else { 25 };
        let w_recv = if readers.is_empty() { 0 } else { 10 };
        let w_resp = if sim.outstanding.is_empty() { 0 } else { 10 };
        let w_respall = if sim.outstanding.len() >= 2 {
            3
        } else if sim.outstanding.is_empty() && i % 16 == 0 {
            // now and then the application hands over an empty batch
            1
        } else {
            0
        };
        let w_flush = if flush_enabled { 3 } else { 0 };
        let w_hostile = if hostiles.is_empty() {
            0
        } else if profile == Profile::Capacity || churn {
            14
        } else {
            7
        };
        let w_setlimit = if profile == Profile::Limits {
            6
        } else if profile == Profile::WellBehaved && rng.chance(1, 3) {
            1
        } else {
            0
        };
        let w_drain = if profile == Profile::Capacity { 2 } else { 0 };
        let w_fault = if faults_enabled && !hostiles.is_empty() { 2 } else { 0 };
        let w_fork = if forks_left > 0 && sim.stream_fds() > 0 { 4 } else { 0 };
        // simulated time passes between steps in a quarter of the histories (slow clients, a slow
        // application): seconds to days. Nothing in the properties depends on time.
        let w_sleep = if time_passes { 4 } else { 0 };
        let weights = [w_poll, w_connect, w_send, w_recv, w_resp, w_respall, w_flush, w_hostile, w_setlimit, w_drain, w_fault, w_fork, w_sleep];
        if weights[..12].iter().sum::<usize>() == 0 {
            break;
        }
        let step = match rng.weighted(&weights) {
            0 => SStep::Poll { key: if shuffle { rng.next() | 1 } else { 0 }, eintr: eintr_enabled && rng.chance(1, 20) },
            1 => {
                let id = nclients;
                let hostile = match profile {
                    Profile::WellBehaved => false,
                    Profile::Hostile => id != 0,
                    Profile::Routing => rng.chance(2, 3),
                    Profile::Capacity => rng.chance(1, 2),
                    Profile::Kill => rng.chance(1, 3),
                    Profile::Recovery => true,
                    Profile::Limits => true,
                    Profile::Expect => false,
                };
                let nreq = if marathon {
                    rng.range(20, 60)
                } else if profile == Profile::Capacity {
                    rng.range(0, 2)
                } else if rng.chance(1, 12) {
                    // a client that pipelines many small requests (batches of more than 20 answers)
                    rng.range(9, 16)
                } else {
                    rng.range(1, 4)
                };
                let (script, marks) = if profile == Profile::Limits {
                    build_limit_script(rng, id, cur_limit)
                } else {
                    let eb = if profile == Profile::Expect { 800 } else { 200 };
                    let mut sm = build_script(rng, id, cur_limit, hostile, nreq, true, eb);
                    if !hostile {
                        // a well-behaved client's script must be well-formed by the reference model
                        // (a stray CR/LF can turn a tolerated header value into a fatal one)
                        for _ in 0..8 {
                            let m = model_stream(&sm.0, cur_limit, WINDOW);
                            let reqs = m.events.iter().filter(|e| matches!(e.1, MEvent::Request(_))).count();
                            if !m.unspecified && !m.events.iter().any(|e| matches!(e.1, MEvent::Error(_))) && reqs == nreq {
                                break;
                            }
                            sm = build_script(rng, id, cur_limit, hostile, nreq, true, eb);
                        }
                    }
                    sm
                };
                sim.scripts.push(script.clone());
                case.scripts.push(script);
                gcs.push(GClient { hostile, stalled: !calm && hostile && rng.chance(1, 5), marks });
                SStep::Connect(id)
            }
            2 => {
                let c = *rng.pick(&senders);
                let cl = &sim.clients[&c];
                let off = cl.off;
                let total = case.scripts[c].len();
                // a client that asked for 100-continue waits for it before sending the body
                let waiting = gcs[c].marks.iter().find(|m| m.0 == off && m.2 && m.1 > m.0);
                if let Some(_m) = waiting {
                    let got100 = cl.resps.iter().filter(|r| r.code == 100 && r.body.is_empty()).count();
                    let needed = gcs[c].marks.iter().filter(|m| m.2 && m.0 <= off).count();
                    if got100 < needed && !gcs[c].hostile && rng.chance(9, 10) {
                        sim.continue_waits += 1;
                        // do something else this round: read
                        if cl.closed || cl.shut_rd {
                            continue;
                        }
                        let s = SStep::Recv(c, 4096);
                        alive = push(&mut sim, &mut case, s, &mut st);
                        continue;
                    }
                }
                let next_mark = gcs[c].marks.iter().flat_map(|m| [m.0, m.1]).find(|&p| p > off).unwrap_or(total);
                if calm {
                    let at_boundary = off == 0 || gcs[c].marks.iter().any(|m| m.1 == off);
                    let queued = simkernel::world::with(|w| w.c2s_queued(cl.conn));
                    if at_boundary && queued > 0 && rng.chance(4, 5) {
                        // let the server consume (and answer) what was sent before starting the next request
                        if readable {
                            let key = if shuffle { rng.next() | 1 } else { 0 };
                            alive = push(&mut sim, &mut case, SStep::Poll { key, eintr: false }, &mut st);
                        }
                        continue;
                    }
                }
                let n = match if calm { *rng.pick(&[1usize, 2, 2, 2, 2, 3]) } else { rng.below(6) } {
                    0 => 1,
                    1 => rng.range(1, 40),
                    2 => next_mark - off,
                    3 => (next_mark - off).saturating_sub(rng.range(1, 2)).max(1),
                    4 => total - off,
                    _ => rng.range(1, 1200),
                };
                SStep::Send(c, n.max(1))
            }
            3 => {
                let c = *rng.pick(&readers);
                SStep::Recv(c, *rng.pick(&[1usize, 16, 200, 4096, 1 << 20]))
            }
            4 => {
                let k = match rng.below(3) {
                    0 => 0,
                    1 => sim.outstanding.len() - 1,
                    _ => rng.below(sim.outstanding.len()),
                };
                let tag = sim.outstanding[k].0.clone();
                let pad = if rng.chance(1, 12) {
                    crate::engc::AIM_PAD + rng.below(4)
                } else if big_responses && rng.chance(1, 3) {
                    rng.range(200, 3 * case.cap_s2c.min(70_000))
                } else {
                    rng.below(80)
                };
                SStep::Respond { tag, code: *rng.pick(&[200u16, 200, 200, 404, 400, 500, 204, 100]), pad }
            }
            5 => SStep::RespondAll { code: 200, pad: rng.below(60) },
            6 => SStep::Flush,
            7 => {
                let c = *rng.pick(&hostiles);
                match rng.weighted(&[50, 20, 20, 10, 6, 8]) {
                    5 => SStep::PassFds(c, rng.range(1, 3)),
                    0 => SStep::Close(c),
                    1 => SStep::ShutRd(c),
                    2 => SStep::ShutWr(c),
                    4 => SStep::Firehose(c),
                    _ => {
                        gcs[c].stalled = true;
                        SStep::Recv(c, 1)
                    }
                }
            }
            8 => {
                let l = if profile == Profile::Limits {
                    *rng.pick(&[0usize, 1, 2, 3, 7, 8, 64, 1023, 1024, 1025, 51199, 51200, 51201, 4294967295, 4294967296, 4294967300, usize::MAX])
                } else {
                    *rng.pick(&[0usize, 4, 64, 1000, 51200, 100_000])
                };
                cur_limit = l;
                SStep::SetLimit(l)
            }
            9 => SStep::Drain,
            11 => {
                forks_left -= 1;
                SStep::Fork
            }
            12 => {
                if rng.chance(1, 6) {
                    SStep::Pace(*rng.pick(&[0u64, 1, 40, 300, 2_500]))
                } else if rng.chance(1, 4) {
                    // the wall clock is stepped: back by seconds .. decades, forward past 2^31 and 2^32 seconds
                    SStep::ClockStep(*rng.pick(&[-1i64, -61, -3_600, -86_400, -1_000_000_000, 3_600, 450_000_000, 2_600_000_000]))
                } else {
                    SStep::Sleep(*rng.pick(&[1u64, 5, 11, 31, 61, 121, 601, 3_601, 86_401, 1_000_000]))
                }
            }
            _ => {
                let c = *rng.pick(&hostiles);
                match rng.below(4) {
                    0 | 1 => SStep::FaultRead(c, if rng.chance(1, 2) { libc::EAGAIN } else { libc::EINTR }),
                    2 => SStep::SpuriousIn(c),
                    _ => SStep::FaultWriteEintr(c),
                }
            }
        };
        if let SStep::SetLimit(_) = step {
            // keep the generator's idea of the limit in step with what is enabled
            let backlog_empty = simkernel::world::with(|w| w.listeners.iter().all(|l| l.backlog.is_empty()));
            if !backlog_empty {
                cur_limit = sim.case_limit;
                continue;
            }
        }
        alive = push(&mut sim, &mut case, step, &mut st);
    }
    drop(sim);
    case
}

pub struct SrvOutcome {
    pub violation: Option<Violation>,
    pub sig: u64,
    pub obs: u64,
    pub sim_probe: SimProbe,
}

#[derive(Default, Clone)]
pub struct SimProbe {
    pub clients: usize,
    pub overlapping: bool,
    pub big_delivered: bool,
    pub late_respond_after_close: u64,
    pub fd_reuse: u64,
    pub max_open: usize,
    pub refused: u64,
    pub write_failures_with_inflight: u64,
    pub closed_with_inflight: u64,
    pub out_of_scope: bool,
    pub killed: bool,
    pub shutdown_returns: u64,
    pub polls: u64,
    pub err400: u64,
    pub continue_waits: u64,
    pub hangups_with_inflight: u64,
    pub per_client_streams: Vec<(usize, Vec<u8>, Vec<String>)>,
    pub poll_results: Vec<u8>,
    pub exp_400_total: usize,
    pub limit_400: usize,
    pub yield_after_error: bool,
    pub got_100: usize,
    pub distinct_limits: usize,
}

/// Execute an explicit server history under the given oracle flags.
pub fn exec_srv(case: &SrvCase, flags: Flags, st: &mut Stats, drain: bool) -> SrvOutcome {
    let mut sim = match ServerSim::new(case, flags) {
        Ok(s) => s,
        Err(v) => return SrvOutcome { violation: Some(v), sig: 0, obs: 0, sim_probe: SimProbe::default() },
    };
    let mut violation = None;
    let trace = std::env::var("MHSIM_TRACE").is_ok();
    for s in &case.steps {
        match sim.step(s, st) {
            Err(v) => {
                violation = Some(v);
                break;
            }
            Ok(applied) => {
                if trace {
                    eprintln!("step {:?} applied={} readable={} outstanding={}", s, applied, sim.readable(), sim.outstanding.len());
                }
            }
        }
    }
    if violation.is_none() && drain {
        if let Err(v) = sim.drain(st) {
            violation = Some(v);
        }
    }
    if violation.is_none() && drain {
        if let Err(v) = sim.final_checks(st) {
            violation = Some(v);
        }
    }
    sim.finish_probes(st);
    if violation.is_none() {
        if case.steps.len() >= 300 {
            st.probe("history_of_300_or_more_steps");
        }
        if case.scripts.len() >= 20 {
            st.probe("churn_20_or_more_clients_in_one_history");
        }
        if sim.clients.values().any(|c| c.yielded.len() >= 20) {
            st.probe("marathon_client_20_or_more_requests_yielded");
        }
    }
    let mut obs = Sig::new();
    obs.u(sim.obs.get());
    let mut streams = Vec::new();
    for (id, cl) in sim.clients.iter() {
        obs.u(*id as u64);
        obs.bytes(&cl.recvd);
        for t in &cl.yielded {
            obs.bytes(t.as_bytes());
        }
        streams.push((*id, cl.recvd.clone(), cl.yielded.clone()));
    }
    let probe = SimProbe {
        clients: sim.clients.len(),
        overlapping: sim.overlapping,
        big_delivered: sim.big_response_delivered,
        late_respond_after_close: sim.late_respond_after_close,
        fd_reuse: simkernel::world::with(|w| w.fd_reuse),
        max_open: sim.max_open,
        refused: sim.refused,
        write_failures_with_inflight: sim.write_failures_with_inflight,
        closed_with_inflight: sim.closed_with_inflight,
        out_of_scope: sim.out_of_scope,
        killed: sim.killed,
        shutdown_returns: sim.shutdown_returns,
        polls: sim.polls,
        err400: sim.err400_seen,
        continue_waits: sim.continue_waits,
        hangups_with_inflight: sim.closed_with_inflight,
        per_client_streams: streams,
        poll_results: sim.poll_results.clone(),
        exp_400_total: sim.clients.values().map(|c| c.exp_400).sum(),
        limit_400: sim.clients.values().map(|c| c.exp_400_kinds.iter().filter(|k| k.is_some()).count()).sum(),
        yield_after_error: sim.yield_after_error > 0,
        got_100: sim.got_100_while_withholding as usize,
        distinct_limits: {
            let mut l: Vec<usize> = sim.clients.values().map(|c| c.limit_at_accept).collect();
            l.sort_unstable();
            l.dedup();
            l.len()
        },
    };
    let sig = sim.sig.get();
    // drop the server inside the same world
    drop(sim);
    SrvOutcome { violation, sig, obs: obs.get(), sim_probe: probe }
}

fn shrink_srv(case: &SrvCase) -> Vec<SrvCase> {
    let mut out = Vec::new();
    for (a, b) in removal_ranges(case.steps.len(), 60) {
        let mut c = case.clone();
        c.steps.drain(a..b);
        out.push(c);
    }
    // simplify arguments
    for (i, s) in case.steps.iter().enumerate() {
        match s {
            SStep::Respond { tag, code, pad } if *pad > 0 || *code != 200 => {
                let mut c = case.clone();
                // an aimed pad (resolved at execution) is first replaced by a plain small one
                c.steps[i] = SStep::Respond { tag: tag.clone(), code: 200, pad: if *pad >= crate::engc::AIM_PAD { 3 } else { pad / 2 } };
                out.push(c);
            }
            SStep::Poll { key, eintr } if *key != 0 || *eintr => {
                let mut c = case.clone();
                c.steps[i] = SStep::Poll { key: 0, eintr: false };
                out.push(c);
            }
            SStep::Send(cl, n) if *n < usize::MAX / 2 => {
                // send everything at once
                let mut c = case.clone();
                c.steps[i] = SStep::Send(*cl, 1 << 30);
                if c.steps != case.steps {
                    out.push(c);
                }
            }
            _ => {}
        }
    }
    // shorter scripts (drop trailing requests' bytes)
    for (k, s) in case.scripts.iter().enumerate() {
        for (a, b) in removal_ranges(s.len(), 8) {
            let mut c = case.clone();
            c.scripts[k].drain(a..b);
            out.push(c);
        }
    }
    if case.kill_switch && !case.steps.iter().any(|s| matches!(s, SStep::Kill)) {
        let mut c = case.clone();
        c.kill_switch = false;
        out.push(c);
    }
    for cap in [212_992usize] {
        if case.cap_s2c != cap {
            let mut c = case.clone();
            c.cap_s2c = cap;
            out.push(c);
        }
        if case.cap_c2s != cap {
            let mut c = case.clone();
            c.cap_c2s = cap;
            out.push(c);
        }
    }
    if case.limit.is_some() {
        let mut c = case.clone();
        c.limit = None;
        out.push(c);
    }
    if case.kill_after_start {
        let mut c = case.clone();
        c.kill_after_start = false;
        out.push(c);
    }
    if case.fds_from_zero {
        let mut c = case.clone();
        c.fds_from_zero = false;
        out.push(c);
    }
    if case.kill_first {
        let mut c = case.clone();
        c.kill_first = false;
        out.push(c);
    }
    if case.from_fd {
        let mut c = case.clone();
        c.from_fd = false;
        out.push(c);
    }
    if case.start_twice {
        let mut c = case.clone();
        c.start_twice = false;
        out.push(c);
    }
    if case.kill_twice {
        let mut c = case.clone();
        c.kill_twice = false;
        out.push(c);
    }
    if case.placeholder0 {
        let mut c = case.clone();
        c.placeholder0 = false;
        out.push(c);
    }
    if case.fd_high != 0 {
        let mut c = case.clone();
        c.fd_high = 0;
        out.push(c);
    }
    out
}

fn shrink_json(case: &J) -> Vec<J> {
    match SrvCase::from_json(case) {
        Ok(c) => shrink_srv(&c).into_iter().map(|c| c.to_json()).collect(),
        Err(_) => vec![],
    }
}

fn srv_components() -> (Vec<&'static str>, Vec<&'static str>) {
    (
        vec![
            "src/server.rs (HttpServer: requests, respond, enqueue, flush_outgoing_writes, kill switch, accept/refuse, sweep)",
            "src/connection.rs",
            "src/request.rs",
            "src/common/headers.rs",
            "src/response.rs",
        ],
        vec!["kernel: simkernel (AF_UNIX stream sockets, listener, epoll, eventfd, descriptor table) - validated by the conformance table against the real kernel"],
    )
}

// =========================================================================== C08

pub struct C08;

impl Prop for C08 {
    fn id(&self) -> &'static str {
        "C08"
    }
    fn runs(&self, tier: Tier) -> u64 {
        match tier {
            Tier::Quick => 500_000,
            Tier::Thorough => 8_000_000,
        }
    }
    fn rule(&self) -> &'static str {
        "one run = a seeded history of 1..4 well-behaved clients (well-formed requests split at aimed/random points, pipelined, with/without body and \
         Expect, waiting for 100-continue) and the application (polls only while the epoll descriptor is readable; answers immediately / late / batched \
         / out of order across connections; flush in 30% of the runs, only when the queued output fits), over socket buffers from 160 B to 208 KiB and both \
         writability thresholds, ready events shuffled; FAULT-FREE configuration. Online: requests()/respond() never fail, panic or block; no idle poll; \
         whenever the epoll descriptor is not readable there is no deliverable work (lost wake-up); every received byte is a prefix of the exact \
         expected output stream. After the drain: tags yielded = complete requests sent, once each, in order; every response received in full; epoll \
         descriptor quiescent. A trace in which some client is not well-behaved is out of scope (no verdict). non-trivial = >=2 clients with overlapping \
         requests or a response larger than the socket buffer delivered; distinct = distinct trace signatures (step kinds + poll outcomes)"
    }
    fn components(&self) -> (Vec<&'static str>, Vec<&'static str>) {
        srv_components()
    }
    fn needs_conformance(&self) -> bool {
        true
    }
    fn gen_inner(&self, rng: &mut Rng, _tier: Tier, _index: u64) -> J {
        if rng.chance(1, 6_000) {
            // one long-lived client, hundreds to tens of thousands of requests, late answers
            return crate::flood::gen_flood(rng);
        }
        gen_srv_case(rng, Profile::WellBehaved, "C08").to_json()
    }
    fn exec_inner(&self, case: &J, st: &mut Stats) -> Result<RunOut, String> {
        if crate::flood::is_flood(case) {
            return crate::flood::exec_flood(case, "C08", st);
        }
        let case = SrvCase::from_json(case)?;
        let out = exec_srv(&case, flags_for("C08", Profile::WellBehaved), st, true);
        // out of scope traces (a client stopped being well-behaved, e.g. after minimisation) give no verdict
        let violation = if out.sim_probe.out_of_scope { None } else { out.violation };
        let p = &out.sim_probe;
        let has_flush = case.steps.iter().any(|s| matches!(s, SStep::Flush));
        if has_flush {
            st.probe("history_with_flush");
        }
        Ok(RunOut {
            violation,
            nontrivial: !p.out_of_scope && (p.overlapping || p.big_delivered),
            sig: out.sig,
            trace_hash: out.obs ^ out.sig.rotate_left(17),
        })
    }
    fn shrink(&self, case: &J) -> Vec<J> {
        if crate::flood::is_flood(case) {
            return crate::flood::shrink_flood(case);
        }
        shrink_json(case)
    }
}

// =========================================================================== C09

pub struct C09;

impl Prop for C09 {
    fn id(&self) -> &'static str {
        "C09"
    }
    fn runs(&self, tier: Tier) -> u64 {
        match tier {
            Tier::Quick => 600_000,
            Tier::Thorough => 10_000_000,
        }
    }
    fn rule(&self) -> &'static str {
        "one run = a clean witness client (id 0) doing request/response round trips while up to 3 other clients execute seeded sequences of {valid / \
         corrupted / oversized / partial sends, shutdown(RD), shutdown(WR), close (also with unread data -> reset), stop reading} against arbitrarily late \
         application answers; ready-event order shuffled, epoll_wait EINTR, server-side read faults (EAGAIN/EINTR -> 500) and write EINTR injected. \
         Oracles: every requests() returns Ok (never Err, never panics, never blocks); after the drain every witness request was yielded once and its \
         response received in full and in order; routing oracle on every byte any client receives; every client that fully closed and whose yielded \
         requests were all answered no longer occupies a descriptor in the simulated server process. non-trivial = a write failure or hang-up happened \
         on a connection with requests in flight; distinct = distinct trace signatures"
    }
    fn components(&self) -> (Vec<&'static str>, Vec<&'static str>) {
        srv_components()
    }
    fn needs_conformance(&self) -> bool {
        true
    }
    fn gen_inner(&self, rng: &mut Rng, _tier: Tier, _index: u64) -> J {
        if rng.chance(1, 6_000) {
            // "however late the application answers": tens of thousands of unanswered requests
            return crate::flood::gen_flood(rng);
        }
        if rng.chance(1, 10_000) {
            // hundreds to tens of thousands of short-lived clients, one after another
            return crate::flood::gen_turnstile(rng);
        }
        gen_srv_case(rng, Profile::Hostile, "C09").to_json()
    }
    fn exec_inner(&self, case: &J, st: &mut Stats) -> Result<RunOut, String> {
        if crate::flood::is_flood(case) {
            return crate::flood::exec_flood(case, "C09", st);
        }
        let case = SrvCase::from_json(case)?;
        let out = exec_srv(&case, flags_for("C09", Profile::Hostile), st, true);
        let p = &out.sim_probe;
        Ok(RunOut {
            violation: out.violation,
            nontrivial: p.write_failures_with_inflight > 0 || p.closed_with_inflight > 0,
            sig: out.sig,
            trace_hash: out.obs ^ out.sig.rotate_left(17),
        })
    }
    fn shrink(&self, case: &J) -> Vec<J> {
        if crate::flood::is_flood(case) {
            return crate::flood::shrink_flood(case);
        }
        shrink_json(case)
    }
}

// =========================================================================== C07

pub struct C07;

impl Prop for C07 {
    fn id(&self) -> &'static str {
        "C07"
    }
    fn runs(&self, tier: Tier) -> u64 {
        match tier {
            Tier::Quick => 600_000,
            Tier::Thorough => 10_000_000,
        }
    }
    fn rule(&self) -> &'static str {
        "one run = up to 8 sequential client identities, at most 4 active at a time, connecting / sending pieces / half-closing / closing (also with \
         requests in flight) while the application polls and answers any outstanding request in any order and arbitrarily late (also after the \
         client has gone and a new client has taken over its descriptor number - lowest-free allocation as in Linux); all client fault kinds, ready-event \
         shuffling, read faults. Oracle on EVERY byte a client receives: it extends a well-formed response that is either the application's answer \
         to one of this client's own tags (each at most once, in the application's respond order, byte-identical) or a server-generated reply to this \
         client's own input (100 only after an Expect header, 400 only after it sent something, 500 only after an injected read fault, the fixed 503 \
         only as first output). non-trivial = a response was issued after its client closed, or a descriptor number was re-used; distinct = \
         distinct trace signatures"
    }
    fn components(&self) -> (Vec<&'static str>, Vec<&'static str>) {
        srv_components()
    }
    fn needs_conformance(&self) -> bool {
        true
    }
    fn gen_inner(&self, rng: &mut Rng, _tier: Tier, _index: u64) -> J {
        gen_srv_case(rng, Profile::Routing, "C07").to_json()
    }
    fn exec_inner(&self, case: &J, st: &mut Stats) -> Result<RunOut, String> {
        let case = SrvCase::from_json(case)?;
        let out = exec_srv(&case, flags_for("C07", Profile::Routing), st, true);
        let p = &out.sim_probe;
        Ok(RunOut {
            violation: out.violation,
            nontrivial: p.late_respond_after_close > 0 || p.fd_reuse > 0,
            sig: out.sig,
            trace_hash: out.obs ^ out.sig.rotate_left(17),
        })
    }
    fn shrink(&self, case: &J) -> Vec<J> {
        shrink_json(case)
    }
}

// =========================================================================== C10

pub struct C10;

impl Prop for C10 {
    fn id(&self) -> &'static str {
        "C10"
    }
    fn runs(&self, tier: Tier) -> u64 {
        match tier {
            Tier::Quick => 400_000,
            Tier::Thorough => 6_000_000,
        }
    }
    fn rule(&self) -> &'static str {
        "one run = up to 13 clients hovering around the capacity boundary (connect-heavy histories of 40..260 steps), closes with unread input / \
         unsent output / requests in flight, connect-then-close before the poll, repeated fill/drain cycles (Drain steps). Oracles: never more than 10 \
         connection descriptors in the simulated server process; a client is refused only when 10 connections were held at its accept, and never \
         served beyond 10; a refused client receives exactly the fixed 503 message and is disconnected; other clients' byte streams keep satisfying \
         the routing oracle; after every drain no descriptor remains for a client that closed and was fully answered, and the process holds \
         exactly listener + epoll (+ kill switch) besides at most one descriptor per still-open client. non-trivial = capacity (10 open) reached; \
         distinct = distinct trace signatures"
    }
    fn components(&self) -> (Vec<&'static str>, Vec<&'static str>) {
        srv_components()
    }
    fn needs_conformance(&self) -> bool {
        true
    }
    fn gen_inner(&self, rng: &mut Rng, _tier: Tier, _index: u64) -> J {
        if rng.chance(1, 8_000) {
            // capacity regained again and again: hundreds to tens of thousands of short-lived clients
            return crate::flood::gen_turnstile(rng);
        }
        if rng.chance(1, 6_000) {
            // a full server and hundreds to tens of thousands of surplus clients
            return crate::flood::gen_storm(rng);
        }
        gen_srv_case(rng, Profile::Capacity, "C10").to_json()
    }
    fn exec_inner(&self, case: &J, st: &mut Stats) -> Result<RunOut, String> {
        if crate::flood::is_flood(case) {
            return crate::flood::exec_flood(case, "C10", st);
        }
        let case = SrvCase::from_json(case)?;
        let out = exec_srv(&case, flags_for("C10", Profile::Capacity), st, true);
        let p = &out.sim_probe;
        Ok(RunOut { violation: out.violation, nontrivial: p.max_open >= 10, sig: out.sig, trace_hash: out.obs ^ out.sig.rotate_left(17) })
    }
    fn shrink(&self, case: &J) -> Vec<J> {
        if crate::flood::is_flood(case) {
            return crate::flood::shrink_flood(case);
        }
        shrink_json(case)
    }
}

// =========================================================================== C18

pub struct C18;

fn c18_after_kill(case: &SrvCase, at: usize, st: &mut Stats) -> (Option<Violation>, bool, u64) {
    // history up to `at`, then Kill, then polls that must all report shutdown without blocking
    let mut c = case.clone();
    c.kill_switch = true;
    c.steps.truncate(at.min(case.steps.len()));
    c.steps.retain(|s| !matches!(s, SStep::Kill));
    let mut sim = match ServerSim::new(&c, flags_for("C18", Profile::Kill)) {
        Ok(s) => s,
        Err(v) => return (Some(v), false, 0),
    };
    for s in &c.steps {
        if let Err(v) = sim.step(s, st) {
            // a violation before the kill is not C18's business unless it is a panic/block
            let _ = v;
            return (None, false, sim.sig.get());
        }
    }
    // state at the time of the kill
    let busy = sim.clients.values().any(|cl| {
        !cl.closed
            && (simkernel::world::with(|w| w.c2s_queued(cl.conn)) > 0
                || cl.expected_out.len() > simkernel::world::with(|w| w.conns[cl.conn].srv_written) as usize)
    }) || !sim.outstanding.is_empty();
    if let Err(v) = sim.step(&SStep::Kill, st) {
        return (Some(v), busy, sim.sig.get());
    }
    for k in 0..4u64 {
        if !sim.readable() {
            let v = Violation::new("C18:not-readable-after-kill", sim.step_no, format!("poll #{} after the kill: the epoll descriptor is not readable, a caller would block", k));
            return (Some(v), busy, sim.sig.get());
        }
        let key = if k % 2 == 0 { 0x9E37 + k * 7919 + at as u64 } else { 0 };
        let before = sim.shutdown_returns;
        if let Err(v) = sim.step(&SStep::Poll { key, eintr: false }, st) {
            return (Some(v), busy, sim.sig.get());
        }
        if sim.shutdown_returns != before + 1 {
            let v = Violation::new("C18:shutdown-missed", sim.step_no, format!("poll #{} after the kill did not report the shutdown", k));
            return (Some(v), busy, sim.sig.get());
        }
        // other actors keep going in between
        if k == 1 {
            let ids: Vec<usize> = sim.clients.keys().cloned().collect();
            for id in ids {
                let _ = sim.step(&SStep::Send(id, 7), st);
            }
        }
    }
    let sig = sim.sig.get();
    drop(sim);
    (None, busy, sig)
}

/// "Full house": 8..10 connections open and readable (unread input on each), possibly unsent
/// output and unanswered requests, a further client waiting on the listener, and then the kill.
/// With 10 + listener + kill switch ready at once the readiness batch is completely full.
fn full_house(rng: &mut Rng) -> SrvCase {
    let mut case = SrvCase {
        cap_c2s: 212_992,
        cap_s2c: *rng.pick(&[300usize, 4096, 212_992]),
        quarter: rng.chance(1, 2),
        kill_switch: true,
        limit: None,
        scripts: Vec::new(),
        steps: Vec::new(),
        kill_at: None,
        kill_after_start: rng.chance(1, 3),
        fds_from_zero: rng.chance(1, 6),
        kill_first: rng.chance(1, 2),
        from_fd: rng.chance(1, 4),
        start_twice: rng.chance(1, 8),
        kill_twice: rng.chance(1, 8),
        placeholder0: rng.chance(1, 3),
        skip_start: false,
        fd_high: if rng.chance(1, 40) { 1 + rng.below(2) as u8 } else if rng.chance(1, 12) { 3 + rng.below(7) as u8 } else if rng.chance(1, 30) { 10 + rng.below(4) as u8 } else { 0 },
    };
    let n = *rng.pick(&[10usize, 10, 10, 9, 8]);
    for c in 0..n {
        let (script, _) = build_script(rng, c, 51200, false, 2, false, 100);
        case.scripts.push(script);
        case.steps.push(SStep::Connect(c));
        case.steps.push(SStep::Poll { key: 0, eintr: false });
    }
    // some complete requests first (yielded, maybe answered), so that there is in-flight state
    let early = rng.below(4);
    for c in 0..early.min(n) {
        case.steps.push(SStep::Send(c, 1 << 20));
        case.steps.push(SStep::Poll { key: rng.next() | 1, eintr: false });
        if rng.chance(1, 2) {
            case.steps.push(SStep::RespondAll { code: 200, pad: rng.below(600) });
        }
    }
    // every connection gets unread input
    for c in 0..n {
        let len = case.scripts[c].len().max(1);
        case.steps.push(SStep::Send(c, if rng.chance(1, 2) { rng.range(1, len) } else { 1 << 20 }));
    }
    // the extra client(s)
    let extra = rng.range(1, 2);
    for k in 0..extra {
        case.scripts.push(b"GET /c99r0 HTTP/1.1\r\n\r\n".to_vec());
        case.steps.push(SStep::Connect(n + k));
    }
    case.kill_at = Some(case.steps.len());
    case
}

impl Prop for C18 {
    fn id(&self) -> &'static str {
        "C18"
    }
    fn runs(&self, tier: Tier) -> u64 {
        match tier {
            Tier::Quick => 300_000,
            Tier::Thorough => 4_000_000,
        }
    }
    fn rule(&self) -> &'static str {
        "one run = a seeded base history (well-behaved, hostile or capacity workload, incl. 10 open + a further client waiting) with a registered kill \
         switch. (a) kill-position search: the kill is signalled after a drawn prefix of the history (every 25th run: after EVERY prefix, a systematic \
         sweep), then 4 polls under alternating ready-event orders, each of which must find the epoll descriptor readable, return the shutdown \
         indication and not block, while clients keep sending in between; (b) differential: the same explicit history executed with and without a \
         registered (never signalled) kill switch must give identical per-client byte streams, yielded tags and poll results. non-trivial = the kill \
         was signalled while some connection had unread input, unsent output or an unanswered request; distinct = distinct (history signature, kill position)"
    }
    fn components(&self) -> (Vec<&'static str>, Vec<&'static str>) {
        srv_components()
    }
    fn needs_conformance(&self) -> bool {
        true
    }
    fn gen_inner(&self, rng: &mut Rng, _tier: Tier, index: u64) -> J {
        if rng.chance(1, 6) {
            return full_house(rng).to_json();
        }
        if rng.chance(1, 60) {
            // a server that was set up but never started: the kill switch must work all the same
            let mut case = full_house(rng);
            case.scripts.clear();
            case.steps.clear();
            case.skip_start = true;
            case.kill_after_start = false;
            case.kill_at = Some(0);
            return case.to_json();
        }
        let profile = *rng.pick(&[Profile::WellBehaved, Profile::Hostile, Profile::Capacity, Profile::Routing]);
        let mut case = gen_srv_case(rng, profile, "C18");
        case.kill_switch = true;
        case.steps.retain(|s| !matches!(s, SStep::Kill));
        let n = case.steps.len();
        case.kill_at = Some(if index % 25 == 0 { usize::MAX } else { rng.below(n + 1) });
        case.to_json()
    }
    fn exec_inner(&self, case: &J, st: &mut Stats) -> Result<RunOut, String> {
        let case = SrvCase::from_json(case)?;
        let mut sig = Sig::new();
        let mut nontrivial = false;
        let positions: Vec<usize> = match case.kill_at {
            // systematic sweep: every position of a short history; for long ones (marathon / churn
            // histories) 80 evenly spaced positions plus the last 20, so that the cost stays linear
            Some(usize::MAX) => {
                let n = case.steps.len();
                if n <= 200 {
                    (0..=n).collect()
                } else {
                    let mut v: Vec<usize> = (0..80).map(|k| k * n / 80).collect();
                    v.extend(n - 20..=n);
                    v.sort_unstable();
                    v.dedup();
                    v
                }
            }
            Some(k) => vec![k],
            None => vec![],
        };
        if positions.len() > 1 {
            st.probe("systematic_kill_sweep");
        }
        for at in positions {
            let (v, busy, s) = c18_after_kill(&case, at, st);
            sig.u(s);
            sig.u(at as u64);
            if busy {
                nontrivial = true;
                st.probe("kill_while_busy");
            }
            if let Some(mut v) = v {
                v.detail = format!("kill after step {}: {}", at, v.detail);
                return Ok(RunOut { violation: Some(v), nontrivial: true, sig: sig.get(), trace_hash: sig.get() });
            }
        }
        // (b) differential: with vs without a registered, never signalled kill switch
        let mut with = case.clone();
        with.kill_switch = true;
        with.steps.retain(|s| !matches!(s, SStep::Kill));
        let mut without = with.clone();
        without.kill_switch = false;
        let mut st2 = Stats::default();
        let a = exec_srv(&with, flags_for("C18", Profile::Kill), st, true);
        let b = exec_srv(&without, flags_for("C18", Profile::Kill), &mut st2, true);
        sig.u(a.sig);
        if a.sim_probe.per_client_streams != b.sim_probe.per_client_streams || a.sim_probe.poll_results != b.sim_probe.poll_results {
            let detail = {
                let mut d = "the mere presence of an unsignalled kill switch changed what clients observe".to_string();
                for (x, y) in a.sim_probe.per_client_streams.iter().zip(b.sim_probe.per_client_streams.iter()) {
                    if x != y {
                        d = format!("client {}: with kill switch {} bytes / yields {:?}; without {} bytes / yields {:?}", x.0, x.1.len(), x.2, y.1.len(), y.2);
                        break;
                    }
                }
                d
            };
            return Ok(RunOut {
                violation: Some(Violation::new("C18:kill-switch-presence-changes-service", 0, detail)),
                nontrivial: true,
                sig: sig.get(),
                trace_hash: sig.get(),
            });
        }
        if let Some(v) = a.violation {
            if v.class.ends_with(":panic") || v.class.ends_with(":blocked") || v.class.contains("shutdown") {
                return Ok(RunOut { violation: Some(v), nontrivial: true, sig: sig.get(), trace_hash: sig.get() });
            }
        }
        Ok(RunOut { violation: None, nontrivial, sig: sig.get(), trace_hash: a.obs ^ sig.get() })
    }
    fn shrink(&self, case: &J) -> Vec<J> {
        let mut v = shrink_json(case);
        if let Ok(c) = SrvCase::from_json(case) {
            if let Some(k) = c.kill_at {
                if k == usize::MAX {
                    for at in 0..=c.steps.len() {
                        let mut d = c.clone();
                        d.kill_at = Some(at);
                        v.insert(0, d.to_json());
                    }
                } else if k > 0 {
                    let mut d = c.clone();
                    d.kill_at = Some(k - 1);
                    v.push(d.to_json());
                }
            }
        }
        v
    }
}

pub fn _keep(_m: &crate::model::ModelOut) {
    let _ = (model_stream, WINDOW, FULL_MSG, Accept::Served);
    let _ = |e: &MEvent| matches!(e, MEvent::Error(_));
}


/// Server-level sub-checks of properties that are mainly decided in engine A.
pub fn gen_sub(rng: &mut Rng, profile: Profile, prop: &'static str) -> J {
    gen_srv_case(rng, profile, prop).to_json()
}

pub fn exec_sub(case: &J, profile: Profile, prop: &'static str, st: &mut Stats) -> Result<RunOut, String> {
    let case = SrvCase::from_json(case)?;
    let out = exec_srv(&case, flags_for(prop, profile), st, true);
    let p = &out.sim_probe;
    let violation = if profile == Profile::Expect && p.out_of_scope { None } else { out.violation };
    let nontrivial = match profile {
        Profile::Limits => p.limit_400 > 0 || p.distinct_limits >= 2,
        Profile::Recovery => p.exp_400_total > 0 && p.yield_after_error,
        Profile::Expect => p.got_100 > 0,
        _ => true,
    };
    if p.limit_400 > 0 {
        st.probe("server_400_for_payload_limit");
    }
    if p.distinct_limits >= 2 {
        st.probe("connections_with_different_limits");
    }
    if p.got_100 > 0 {
        st.probe("client_waited_for_100_and_got_it");
    }
    if p.exp_400_total > 0 && p.yield_after_error {
        st.probe("request_yielded_after_400_on_same_connection");
    }
    Ok(RunOut { violation, nontrivial, sig: out.sig ^ 0xC0C0, trace_hash: out.obs ^ out.sig.rotate_left(17) })
}

pub fn shrink_sub(case: &J) -> Vec<J> {
    shrink_json(case)
}
