//! Write side: C06 (HttpConnection::try_write over a scripted stream) and C05
//! (Response::write_all into a scripted sink, engine B).

use std::io;
use std::panic::{catch_unwind, AssertUnwindSafe};

use micro_http::{Body, MediaType, Response};

use crate::core::{removal_ranges, Prop, RunOut, Stats, Tier, Violation};
use crate::json::{self, J};
use crate::model::{read_responses, serialize_response, RespSpec, STATUS_CODES};
use crate::obs::{method_of, status_of, version_of, CallRes, Conn};
use crate::rng::{Rng, Sig};
use crate::simstream::{RdOp, WrOp};

// ------------------------------------------------------------------ builder programs

#[derive(Clone, Debug, PartialEq, Eq)]
pub enum BOp {
    SetBody(Vec<u8>),
    /// set_body with `len` bytes of a fixed pattern (compact form for bodies of megabytes)
    SetBodyFill(usize, u8),
    SetContentType(u8),
    SetDeprecation,
    SetEncoding,
    SetServer(String),
    SetAllow(Vec<u8>),
    AllowMethod(u8),
    /// set_content_length(..): the application overrides (or removes) the length explicitly
    SetContentLength(Option<i32>),
}

#[derive(Clone, Debug, PartialEq, Eq)]
pub struct Recipe {
    pub version: u8,
    pub code: u16,
    pub program: Vec<BOp>,
}

impl Recipe {
    pub fn build(&self) -> (Response, RespSpec) {
        let (r, s, _) = self.build_staged(None);
        (r, s)
    }

    /// Like `build`, but the response is additionally serialised (into a Vec) after the first `mid`
    /// builder calls and then built further: an application may write a response, change it and
    /// write it again - each output must be the serialisation of the state at that moment.
    /// Returns (response, spec, Some((bytes written at mid, reference bytes at mid))).
    #[allow(clippy::type_complexity)]
    pub fn build_staged(&self, mid: Option<usize>) -> (Response, RespSpec, Option<(Vec<u8>, Vec<u8>)>) {
        let mut r = Response::new(version_of(self.version), status_of(self.code));
        let mut s = RespSpec::new(self.version, self.code);
        let mut at_mid = None;
        for (i, op) in self.program.iter().enumerate() {
            if mid == Some(i) {
                let mut out = Vec::new();
                let _ = r.write_all(&mut out);
                at_mid = Some((out, serialize_response(&s)));
            }
            match op {
                BOp::SetBody(b) => {
                    r.set_body(Body::new(b.clone()));
                    s.set_body(b.clone());
                }
                BOp::SetBodyFill(len, k) => {
                    let b = fill_body(*len, *k);
                    r.set_body(Body::new(b.clone()));
                    s.set_body(b);
                }
                BOp::SetContentType(m) => {
                    r.set_content_type(if *m == 0 { MediaType::PlainText } else { MediaType::ApplicationJson });
                    s.content_type = *m;
                }
                BOp::SetDeprecation => {
                    r.set_deprecation();
                    s.deprecation = true;
                }
                BOp::SetEncoding => {
                    r.set_encoding();
                    s.accept_encoding = true;
                }
                BOp::SetServer(x) => {
                    r.set_server(x);
                    s.server = x.clone();
                }
                BOp::SetAllow(ms) => {
                    r.set_allow(ms.iter().map(|m| method_of(*m)).collect());
                    s.allow = ms.clone();
                }
                BOp::AllowMethod(m) => {
                    r.allow_method(method_of(*m));
                    s.allow.push(*m);
                }
                BOp::SetContentLength(n) => {
                    r.set_content_length(*n);
                    s.content_length = n.map(|x| x as i64);
                }
            }
        }
        (r, s, at_mid)
    }

    pub fn to_json(&self) -> J {
        json::obj(vec![
            ("version", json::u(self.version as usize)),
            ("code", json::u(self.code as usize)),
            (
                "program",
                J::Arr(
                    self.program
                        .iter()
                        .map(|op| match op {
                            BOp::SetBody(b) => J::Arr(vec![json::s("set_body"), json::hex(b)]),
                            BOp::SetBodyFill(len, k) => J::Arr(vec![json::s("set_body_fill"), json::u(*len), json::u(*k as usize)]),
                            BOp::SetContentType(m) => J::Arr(vec![json::s("set_content_type"), json::u(*m as usize)]),
                            BOp::SetDeprecation => J::Arr(vec![json::s("set_deprecation")]),
                            BOp::SetEncoding => J::Arr(vec![json::s("set_encoding")]),
                            BOp::SetServer(x) => J::Arr(vec![json::s("set_server"), json::s(x)]),
                            BOp::SetAllow(ms) => J::Arr(vec![json::s("set_allow"), J::Arr(ms.iter().map(|m| json::u(*m as usize)).collect())]),
                            BOp::AllowMethod(m) => J::Arr(vec![json::s("allow_method"), json::u(*m as usize)]),
                            BOp::SetContentLength(n) => J::Arr(vec![
                                json::s("set_content_length"),
                                match n {
                                    Some(x) => json::i(*x as i64),
                                    None => J::Null,
                                },
                            ]),
                        })
                        .collect(),
                ),
            ),
        ])
    }

    pub fn from_json(j: &J) -> Result<Recipe, String> {
        let mut program = Vec::new();
        for op in j.req_arr("program")? {
            let a = op.arr().ok_or("op")?;
            let k = a.first().and_then(|x| x.str()).ok_or("op kind")?;
            program.push(match k {
                "set_body" => BOp::SetBody(a.get(1).and_then(|x| x.bytes()).ok_or("body")?),
                "set_body_fill" => BOp::SetBodyFill(a.get(1).and_then(|x| x.usize()).ok_or("len")?, a.get(2).and_then(|x| x.usize()).unwrap_or(0) as u8),
                "set_content_type" => BOp::SetContentType(a.get(1).and_then(|x| x.usize()).ok_or("ct")? as u8),
                "set_deprecation" => BOp::SetDeprecation,
                "set_encoding" => BOp::SetEncoding,
                "set_server" => BOp::SetServer(a.get(1).and_then(|x| x.str()).ok_or("server")?.to_string()),
                "set_allow" => BOp::SetAllow(
                    a.get(1).and_then(|x| x.arr()).ok_or("allow")?.iter().map(|m| m.usize().unwrap_or(0) as u8).collect(),
                ),
                "allow_method" => BOp::AllowMethod(a.get(1).and_then(|x| x.usize()).ok_or("m")? as u8),
                "set_content_length" => BOp::SetContentLength(a.get(1).and_then(|x| x.int()).map(|x| x as i32)),
                _ => return Err(format!("unknown builder op {}", k)),
            });
        }
        Ok(Recipe { version: j.req_usize("version")? as u8, code: j.req_usize("code")? as u16, program })
    }

    pub fn shrink(&self) -> Vec<Recipe> {
        let mut v = Vec::new();
        for (a, b) in removal_ranges(self.program.len(), 8) {
            let mut r = self.clone();
            r.program.drain(a..b);
            v.push(r);
        }
        for (i, op) in self.program.iter().enumerate() {
            if let BOp::SetBodyFill(len, k) = op {
                for nl in [len / 2, len - len / 4, len.saturating_sub(1)] {
                    if nl < *len {
                        let mut r = self.clone();
                        r.program[i] = BOp::SetBodyFill(nl, *k);
                        v.push(r);
                    }
                }
            }
            if let BOp::SetBody(b) = op {
                for (x, y) in removal_ranges(b.len(), 10) {
                    let mut r = self.clone();
                    let mut nb = b.clone();
                    nb.drain(x..y);
                    r.program[i] = BOp::SetBody(nb);
                    v.push(r);
                }
            }
        }
        if self.code != 200 {
            let mut r = self.clone();
            r.code = 200;
            v.push(r);
        }
        v
    }
}

/// `len` bytes of a pattern that never repeats with a short period and contains CR, LF and NUL
pub fn fill_body(len: usize, k: u8) -> Vec<u8> {
    (0..len).map(|i| ((i as u64).wrapping_mul(2_654_435_761).wrapping_add(k as u64) >> 7) as u8).collect()
}

fn gen_body(rng: &mut Rng, max: usize) -> Vec<u8> {
    let n = match rng.weighted(&[15, 40, 25, 15, 5]) {
        0 => 0,
        1 => rng.range(1, 40.min(max.max(1))),
        2 => rng.range(41.min(max.max(1)), 600.min(max.max(1))),
        3 => rng.range(601.min(max.max(1)), 8192.min(max.max(1))),
        _ => rng.range(1, max.max(1)),
    };
    match rng.below(5) {
        0 => rng.bytes(n),
        1 => {
            let pat = b"\r\n\r\nHTTP/1.1 200 \r\nContent-Length: 3\r\n\r\nabc";
            (0..n).map(|i| pat[i % pat.len()]).collect()
        }
        2 => {
            let pat = b"HTTP/1.0 204 \r\nServer: x\r\n\r\n";
            (0..n).map(|i| pat[i % pat.len()]).collect()
        }
        3 => vec![b'\n'; n],
        _ => (0..n).map(|i| b'A' + (i % 26) as u8).collect(),
    }
}

fn gen_server(rng: &mut Rng) -> String {
    if rng.chance(1, 12) {
        // long identities: a head of several hundred bytes (nothing may assume a small head)
        let n = *rng.pick(&[60usize, 75, 76, 100, 200, 255, 256, 257, 300, 1000, 5000]);
        return (0..n).map(|i| (b'a' + (i % 26) as u8) as char).collect();
    }
    match rng.below(5) {
        0 => String::new(),
        1 => "Firecracker API".to_string(),
        2 => "caf\u{e9} \u{4e16}".to_string(),
        3 => "a: b; Content-Length: 99".to_string(),
        _ => (0..rng.below(30)).map(|_| (b' ' + rng.below(94) as u8) as char).collect(),
    }
}

pub fn gen_recipe(rng: &mut Rng, max_ops: usize, max_body: usize) -> Recipe {
    let version = rng.below(2) as u8;
    let code = *rng.pick(&STATUS_CODES);
    let n = rng.weighted(&[15, 30, 25, 15, 10, 5]).min(max_ops);
    let mut program = Vec::new();
    for _ in 0..n {
        program.push(match rng.weighted(&[35, 12, 10, 10, 10, 10, 13, 5]) {
            0 => BOp::SetBody(gen_body(rng, max_body)),
            1 => BOp::SetContentType(rng.below(2) as u8),
            2 => BOp::SetDeprecation,
            3 => BOp::SetEncoding,
            4 => BOp::SetServer(gen_server(rng)),
            5 => {
                let k = if rng.chance(1, 10) { rng.range(10, 80) } else { rng.below(4) };
                BOp::SetAllow((0..k).map(|_| rng.below(3) as u8).collect())
            }
            6 => BOp::AllowMethod(rng.below(3) as u8),
            _ => BOp::SetContentLength(match rng.below(8) {
                0 | 1 => None,
                2 => Some(0),
                3 => Some(-1),
                4 => Some(i32::MIN),
                5 => Some(i32::MAX),
                6 => Some(rng.range(1, 5000) as i32),
                _ => Some(-(rng.range(2, 100000) as i32)),
            }),
        });
    }
    Recipe { version, code, program }
}

fn wrop_to_json(o: &WrOp) -> J {
    match o {
        WrOp::Accept(n) => J::Arr(vec![json::s("accept"), if *n == usize::MAX { json::i(-1) } else { json::u(*n) }]),
        WrOp::Eintr => J::Arr(vec![json::s("eintr")]),
        WrOp::Eagain => J::Arr(vec![json::s("eagain")]),
        WrOp::Epipe => J::Arr(vec![json::s("epipe")]),
        WrOp::Reset => J::Arr(vec![json::s("reset")]),
        WrOp::Errno(e) => J::Arr(vec![json::s("errno"), json::i(*e)]),
        WrOp::Zero => J::Arr(vec![json::s("zero")]),
    }
}

fn wrop_from_json(j: &J) -> Result<WrOp, String> {
    let a = j.arr().ok_or("wrop")?;
    let k = a.first().and_then(|x| x.str()).ok_or("wrop kind")?;
    Ok(match k {
        "accept" => {
            let n = a.get(1).and_then(|x| x.int()).ok_or("accept n")?;
            WrOp::Accept(if n < 0 { usize::MAX } else { n as usize })
        }
        "eintr" => WrOp::Eintr,
        "eagain" => WrOp::Eagain,
        "epipe" => WrOp::Epipe,
        "reset" => WrOp::Reset,
        "errno" => WrOp::Errno(a.get(1).and_then(|x| x.int()).ok_or("errno")? as i32),
        "zero" => WrOp::Zero,
        _ => return Err(format!("unknown write op {}", k)),
    })
}

/// C06, volume family: `count` responses with a body of `body` bytes each through one connection,
/// written in pieces of at most `chunk` bytes. Oracles: every write that the stream accepts is
/// reported Ok, pending_write() exactly while bytes are unsent, the byte stream equals the
/// concatenation of the reference serialisations (compared on the fly), nothing lost at the end.
fn exec_write_volume(case: &J, st: &mut Stats) -> Result<RunOut, String> {
    let body_len = case.req_usize("body")?;
    let count = case.req_usize("count")?;
    let chunk = case.req_usize("chunk")?.max(1);
    let body = fill_body(body_len, 3);
    let mut spec = RespSpec::new(1, 200);
    spec.set_body(body.clone());
    let exp = std::rc::Rc::new(serialize_response(&spec));
    let mut conn = Conn::new(Vec::new(), None);
    conn.sh.borrow_mut().verify = Some(exp.clone());
    let viol = |class: &str, step: usize, detail: String| {
        Ok(RunOut { violation: Some(Violation::new(&format!("C06:{}", class), step, detail)), nontrivial: true, sig: 1, trace_hash: 1 })
    };
    for i in 0..count {
        st.steps += 1;
        let mut r = Response::new(version_of(1), status_of(200));
        r.set_body(Body::new(body.clone()));
        if catch_unwind(AssertUnwindSafe(|| conn.c.enqueue_response(r))).is_err() {
            return viol("panic", i, "enqueue_response panicked".into());
        }
        let mut writes = 0;
        loop {
            writes += 1;
            if writes > 1000 {
                return viol("no-progress", i, format!("response #{}: 1000 writes of up to {} bytes did not finish {} bytes", i, chunk, exp.len()));
            }
            let res = conn.try_write(WrOp::Accept(chunk));
            st.lib_calls += 1;
            if res != CallRes::Ok {
                let total = conn.sh.borrow().verify_total;
                return viol("ok-expected", i, format!("response #{} ({} bytes through this connection so far): the stream accepted the bytes but try_write returned {:?}", i, total, res));
            }
            let sent = conn.sh.borrow().verify_total;
            let want_pending = sent < (i as u64 + 1) * exp.len() as u64;
            match catch_unwind(AssertUnwindSafe(|| conn.c.pending_write())) {
                Ok(p) if p == want_pending => {}
                Ok(p) => return viol("pending-flag", i, format!("pending_write() = {} after {} of {} bytes", p, sent, (i as u64 + 1) * exp.len() as u64)),
                Err(_) => return viol("panic", i, "pending_write panicked".into()),
            }
            if !want_pending {
                break;
            }
        }
        let s = conn.sh.borrow();
        if let Some(off) = s.verify_bad {
            return viol("not-a-prefix", i, format!("the byte at offset {} of the connection's output differs from the queued responses", off));
        }
        if s.verify_total != (i as u64 + 1) * exp.len() as u64 {
            return viol("not-a-prefix", i, format!("{} bytes written after {} responses of {} bytes", s.verify_total, i + 1, exp.len()));
        }
    }
    st.probe("more_than_4_GiB_through_one_connection");
    Ok(RunOut { violation: None, nontrivial: true, sig: count as u64, trace_hash: count as u64 ^ (chunk as u64) << 8 })
}

// =========================================================================== C06

#[derive(Clone, Debug, PartialEq, Eq)]
enum WStep {
    Enq(Recipe),
    Wr(WrOp),
    /// clear_write_buffer(): the owner discards everything pending (what a server does on hang-up)
    Clear,
    /// try_read() between writes: input is a fixed cycle of complete requests without Expect and of
    /// rejected lines, so a read never queues output itself. 0 = EOF, 1 = EAGAIN, 2 = EINTR,
    /// 3 = ECONNRESET, n >= 4: deliver up to n - 3 bytes
    Rd(usize),
}

/// what the read side of a C06 connection delivers (cycled)
const C06_INPUT_UNIT: &[u8] = b"GET /a HTTP/1.1\r\n\r\nPUT /b HTTP/1.1\r\nContent-Length: 3\r\n\r\nabcBAD\r\n\r\nGET /c HTTP/1.0\r\nX: y\r\n\r\n";

#[derive(Clone, Debug)]
struct WrCase {
    steps: Vec<WStep>,
}

impl WrCase {
    fn to_json(&self) -> J {
        json::obj(vec![
            ("engine", json::s("A-write")),
            (
                "steps",
                J::Arr(
                    self.steps
                        .iter()
                        .map(|s| match s {
                            WStep::Enq(r) => json::obj(vec![("enqueue", r.to_json())]),
                            WStep::Wr(o) => json::obj(vec![("try_write", wrop_to_json(o))]),
                            WStep::Clear => json::obj(vec![("clear_write_buffer", J::Bool(true))]),
                            WStep::Rd(k) => json::obj(vec![("try_read", json::u(*k))]),
                        })
                        .collect(),
                ),
            ),
        ])
    }
    fn from_json(j: &J) -> Result<WrCase, String> {
        let mut steps = Vec::new();
        for s in j.req_arr("steps")? {
            if let Some(r) = s.get("enqueue") {
                steps.push(WStep::Enq(Recipe::from_json(r)?));
            } else if let Some(o) = s.get("try_write") {
                steps.push(WStep::Wr(wrop_from_json(o)?));
            } else if s.get("clear_write_buffer").is_some() {
                steps.push(WStep::Clear);
            } else if let Some(k) = s.get("try_read") {
                steps.push(WStep::Rd(k.usize().ok_or("try_read")?));
            } else {
                return Err("unknown step".into());
            }
        }
        Ok(WrCase { steps })
    }
}

pub struct C06;

impl Prop for C06 {
    fn id(&self) -> &'static str {
        "C06"
    }
    fn runs(&self, tier: Tier) -> u64 {
        match tier {
            Tier::Quick => 3_000_000,
            Tier::Thorough => 40_000_000,
        }
    }
    fn rule(&self) -> &'static str {
        "one run = a seeded interleaving (<=200 steps) of enqueue_response (0..6 responses, bodies 0..8 KiB, built by random builder programs) \
         and try_write calls whose stream behaviour is drawn per call from {accept k for k in 1, len-1, len, random; EINTR; EAGAIN; EPIPE; ECONNRESET; \
         zero}; after every step: accepted bytes are a prefix of the concatenation of reference-serialised responses in enqueue order (since the last \
         discard), pending_write() <=> some byte unsent, Ok for accept/EINTR, closed + everything discarded on zero/non-interrupt error, InvalidWrite \
         with no write call when nothing is pending, at most one write per call; non-trivial = a short write or error occurred while >=2 \
         responses were queued; distinct = distinct sequences of (step kind, stream behaviour class, result class, pending flag)"
    }
    fn components(&self) -> (Vec<&'static str>, Vec<&'static str>) {
        (
            vec!["src/connection.rs (enqueue_response, try_write, pending_write, clear_write_buffer)", "src/response.rs (write_all)"],
            vec!["stream (SimStream write side: every write call's behaviour is scripted)"],
        )
    }
    fn gen_inner(&self, rng: &mut Rng, _tier: Tier, index: u64) -> J {
        let nsteps = rng.range(2, 60);
        let mut steps = Vec::new();
        let mut enq = 0;
        // fault-free and fault-injecting configurations are separate
        let faulty = rng.chance(1, 2);
        let burst = rng.chance(1, 3);
        // a third of the runs also read between writes (a duplex owner)
        let duplex = rng.chance(1, 3);
        if !cfg!(miri) && index % 1_000_000 == 499_999 {
            // volume: more than 4 GiB through ONE connection (130..140 responses of 32 MiB), so that a
            // 32-bit count of bytes would wrap; the sink compares on the fly and stores nothing
            return json::obj(vec![
                ("engine", json::s("A-write-volume")),
                ("body", json::u(32 << 20)),
                ("count", json::u(rng.range(130, 140))),
                ("chunk", json::u(*rng.pick(&[4usize << 20, 8 << 20, (16 << 20) + 1, 40 << 20]))),
            ]);
        }
        if !cfg!(miri) && rng.chance(1, 2500) {
            // mega: a response body of 1..3 MiB (beyond any "large body" threshold someone might pick)
            // pushed out through writes of tens to hundreds of KiB, with a small response behind it
            let len = *rng.pick(&[1usize << 20, (1 << 20) + 1, (1 << 20) + 4097, 1_500_000, 2 << 20, (2 << 20) + 17, 3_000_000]);
            steps.push(WStep::Enq(Recipe { version: 1, code: 200, program: vec![BOp::SetBodyFill(len, rng.below(256) as u8)] }));
            steps.push(WStep::Enq(gen_recipe(rng, 2, 64)));
            let mut left = len + 200;
            while left > 0 {
                let k = rng.range(10_000, 900_000);
                steps.push(WStep::Wr(WrOp::Accept(k)));
                left = left.saturating_sub(k);
            }
            steps.push(WStep::Wr(WrOp::Accept(usize::MAX)));
            steps.push(WStep::Wr(WrOp::Accept(usize::MAX)));
            return WrCase { steps }.to_json();
        }
        if rng.chance(1, 40) {
            // a healthy burst: dozens of small responses queued before the first write
            for _ in 0..rng.range(20, 70) {
                steps.push(WStep::Enq(gen_recipe(rng, 2, 24)));
            }
        }
        if rng.chance(1, 60) {
            // a long run of interrupted writes with output pending (dozens in a row are still not an error)
            steps.push(WStep::Enq(gen_recipe(rng, 2, 64)));
            for _ in 0..rng.range(30, 300) {
                steps.push(WStep::Wr(WrOp::Eintr));
            }
        }
        for i in 0..nsteps {
            let want_enq = if burst && i < 4 { true } else { rng.chance(1, 3) };
            if duplex && rng.chance(1, 5) {
                steps.push(WStep::Rd(match rng.below(8) {
                    0 => 0,
                    1 => 1,
                    2 => 2,
                    3 => {
                        if faulty {
                            3
                        } else {
                            1
                        }
                    }
                    _ => 4 + rng.range(0, 120) as usize,
                }));
            } else if want_enq && enq < 6 {
                enq += 1;
                steps.push(WStep::Enq(gen_recipe(rng, 3, 8192)));
            } else if rng.chance(1, 25) {
                steps.push(WStep::Clear);
            } else {
                let w = if faulty { [30, 10, 10, 20, 8, 6, 6, 5, 5] } else { [30, 15, 15, 30, 10, 0, 0, 0, 0] };
                if rng.chance(1, 8) {
                    steps.push(WStep::Wr(WrOp::Accept(usize::MAX - rng.range(2, 5) as usize)));
                    continue;
                }
                steps.push(WStep::Wr(match rng.weighted(&w) {
                    0 => WrOp::Accept(usize::MAX),
                    1 => WrOp::Accept(1),
                    2 => WrOp::Accept(usize::MAX - 1), // len-1 (resolved at execution: one less than offered)
                    3 => WrOp::Accept(rng.range(1, 300)),
                    4 => WrOp::Eintr,
                    5 => WrOp::Eagain,
                    6 => WrOp::Epipe,
                    7 => {
                        if rng.chance(1, 3) {
                            // the rarer errnos: none of them is an interrupt
                            WrOp::Errno(*rng.pick(&[libc::ENOBUFS, libc::ENOMEM, libc::EIO, libc::ENOSPC, libc::ETIMEDOUT, libc::ENOTCONN, libc::ECONNABORTED, libc::EBADF, libc::EINVAL, libc::EMSGSIZE, libc::ENETDOWN, libc::EHOSTUNREACH, libc::EDQUOT, libc::EFBIG]))
                        } else {
                            WrOp::Reset
                        }
                    }
                    _ => WrOp::Zero,
                }));
            }
        }
        WrCase { steps }.to_json()
    }
    fn exec_inner(&self, case: &J, st: &mut Stats) -> Result<RunOut, String> {
        if case.get("engine").and_then(|x| x.str()) == Some("A-write-volume") {
            return exec_write_volume(case, st);
        }
        let case = WrCase::from_json(case)?;
        let mut input = Vec::new();
        if case.steps.iter().any(|s| matches!(s, WStep::Rd(_))) {
            while input.len() < 8192 {
                input.extend_from_slice(C06_INPUT_UNIT);
            }
        }
        let mut conn = Conn::new(input, None);
        let mut expected: Vec<u8> = Vec::new(); // concatenation since the last discard
        let mut base = 0usize; // offset into the stream's accepted bytes where `expected` starts
        let mut queued_resps: Vec<usize> = Vec::new(); // end offsets (in `expected`) of queued responses
        let mut sig = Sig::new();
        let mut nontrivial = false;
        let viol = |class: &str, step: usize, detail: String, sig: &Sig| {
            Ok(RunOut {
                violation: Some(Violation::new(&format!("C06:{}", class), step, detail)),
                nontrivial: true,
                sig: sig.get(),
                trace_hash: sig.get(),
            })
        };
        for (i, step) in case.steps.iter().enumerate() {
            st.steps += 1;
            match step {
                WStep::Enq(recipe) => {
                    let (resp, spec) = recipe.build();
                    let sent = conn.sh.borrow().accepted.len() - base;
                    if sent > 0 && sent < expected.len() && queued_resps.iter().any(|&e| e > sent) {
                        // is a response partially written right now?
                        let cur_end = *queued_resps.iter().find(|&&e| e > sent).unwrap();
                        let cur_start = queued_resps.iter().rev().find(|&&e| e <= sent).cloned().unwrap_or(0);
                        if sent > cur_start && sent < cur_end {
                            st.probe("enqueue_during_partial_write");
                        }
                    }
                    let r = catch_unwind(AssertUnwindSafe(|| conn.c.enqueue_response(resp)));
                    st.lib_calls += 1;
                    if r.is_err() {
                        return viol("panic", i, "enqueue_response panicked".into(), &sig);
                    }
                    expected.extend(serialize_response(&spec));
                    queued_resps.push(expected.len());
                    sig.u(1);
                }
                WStep::Clear => {
                    let sent = conn.sh.borrow().accepted.len() - base;
                    if sent > 0 && sent < expected.len() {
                        st.probe("clear_during_partial_write");
                    }
                    let r = catch_unwind(AssertUnwindSafe(|| conn.c.clear_write_buffer()));
                    st.lib_calls += 1;
                    if r.is_err() {
                        return viol("panic", i, "clear_write_buffer panicked".into(), &sig);
                    }
                    base = conn.sh.borrow().accepted.len();
                    expected.clear();
                    queued_resps.clear();
                    sig.u(3);
                }
                WStep::Rd(k) => {
                    let sent = conn.sh.borrow().accepted.len() - base;
                    if sent < expected.len() {
                        st.probe("read_while_output_pending");
                        if *k == 0 {
                            st.probe("eof_read_while_output_pending");
                        }
                    }
                    let op = match *k {
                        0 => RdOp::Eof(0),
                        1 => RdOp::Eagain,
                        2 => RdOp::Eintr,
                        3 => RdOp::Reset,
                        n => RdOp::Data(n - 3, 0),
                    };
                    match op {
                        RdOp::Eintr => st.fault("F-rintr"),
                        RdOp::Reset => st.fault("F-rerr:ECONNRESET"),
                        RdOp::Eof(_) => st.fault("F-eof"),
                        _ => {}
                    }
                    let res = conn.try_read(op);
                    st.lib_calls += 1;
                    sig.u(4);
                    sig.u(res.code());
                    if let CallRes::Panic(m) = &res {
                        return viol("panic", i, format!("try_read panicked: {}", m), &sig);
                    }
                    if conn.last_writes > 0 {
                        return viol("write-in-read", i, "try_read performed a write".into(), &sig);
                    }
                    // the requests are not this property's concern; what the read did to the
                    // output side is judged by the invariants below
                    let _ = conn.pop_all();
                }
                WStep::Wr(op) => {
                    let sent_before = conn.sh.borrow().accepted.len() - base;
                    let pending_model = sent_before < expected.len();
                    let unsent_resps = queued_resps.iter().filter(|&&e| e > sent_before).count();
                    // resolve "len-1" against what the library will offer: we cannot know the offer
                    // in advance, so Accept(MAX-1) is applied by the stream as "one less than offered"
                    let op_eff = op.clone();
                    let writes0 = conn.sh.borrow().write_calls;
                    let res = if let WrOp::Accept(n) = op_eff {
                        if n <= usize::MAX - 2 && n >= usize::MAX - 5 {
                            // aimed cuts at the structure of the response being written: exactly the head
                            // (status line + header lines + blank line), one byte less / more, or the
                            // status line only - where "this response is complete" and "short write"
                            // decisions are most likely to be confused
                            let cur_end = queued_resps.iter().find(|&&e| e > sent_before).cloned().unwrap_or(sent_before);
                            let cur_start = queued_resps.iter().rev().find(|&&e| e <= sent_before).cloned().unwrap_or(0);
                            let cur = &expected[cur_start.min(expected.len())..cur_end.min(expected.len())];
                            let head_end = cur.windows(4).position(|w| w == b"\r\n\r\n").map(|p| p + 4).unwrap_or(cur.len());
                            let line_end = cur.windows(2).position(|w| w == b"\r\n").map(|p| p + 2).unwrap_or(cur.len());
                            let target = cur_start
                                + match usize::MAX - n {
                                    2 => head_end,
                                    3 => head_end.saturating_sub(1),
                                    4 => head_end + 1,
                                    _ => line_end,
                                };
                            let k = if target > sent_before { target - sent_before } else { 1 };
                            if target > sent_before && target < cur_end {
                                st.probe("write_cut_aimed_at_head");
                            }
                            if target == cur_end && target > sent_before {
                                st.probe("write_accepts_exactly_head_of_bodyless_response");
                            }
                            conn.try_write(WrOp::Accept(k))
                        } else if n == usize::MAX - 1 {
                            conn.sh.borrow_mut().next_wr = None;
                            // emulate via a two-phase: peek the offer size is impossible; use the model:
                            // the library offers at most the rest of the current response
                            let cur_end = queued_resps.iter().find(|&&e| e > sent_before).cloned().unwrap_or(sent_before);
                            let offer = cur_end - sent_before;
                            let k = if offer >= 2 { offer - 1 } else { 1 };
                            conn.try_write(WrOp::Accept(k))
                        } else {
                            conn.try_write(WrOp::Accept(n))
                        }
                    } else {
                        conn.try_write(op_eff.clone())
                    };
                    st.lib_calls += 1;
                    let writes = conn.sh.borrow().write_calls - writes0;
                    let (offered, took) = {
                        let s = conn.sh.borrow();
                        (s.last_write_len, s.last_write_accepted)
                    };
                    sig.u(2);
                    sig.u(match op {
                        WrOp::Accept(_) => {
                            if writes == 1 && took < offered {
                                20
                            } else {
                                21
                            }
                        }
                        WrOp::Eintr => 22,
                        WrOp::Eagain => 23,
                        WrOp::Epipe => 24,
                        WrOp::Reset => 25,
                        WrOp::Errno(_) => 27,
                        WrOp::Zero => 26,
                    });
                    sig.u(res.code());
                    if let CallRes::Panic(m) = &res {
                        return viol("panic", i, format!("try_write panicked: {}", m), &sig);
                    }
                    if writes > 1 {
                        return viol("multiple-writes", i, format!("try_write performed {} write calls", writes), &sig);
                    }
                    if conn.last_recvs > 0 {
                        return viol("recv-in-write", i, "try_write performed a receive".into(), &sig);
                    }
                    if !pending_model {
                        // nothing pending: invalid write, stream untouched
                        if res != CallRes::InvalidWrite {
                            return viol("invalid-write-expected", i, format!("nothing pending but try_write returned {:?}", res), &sig);
                        }
                        if writes != 0 {
                            return viol("invalid-write-touched-stream", i, "try_write with nothing pending called write".into(), &sig);
                        }
                        // (fall through to the invariants: an invalid write must not change what is pending)
                    } else if writes != 1 {
                        return viol("no-write", i, format!("output pending but try_write made {} write calls (result {:?})", writes, res), &sig);
                    }
                    if pending_model {
                    match op {
                        WrOp::Accept(_) | WrOp::Eintr => {
                            match op {
                                WrOp::Eintr => st.fault("F-wintr"),
                                _ => {
                                    if took < offered {
                                        st.fault("F-short");
                                        if unsent_resps >= 2 {
                                            nontrivial = true;
                                            st.probe("short_write_with_2_queued");
                                        }
                                    }
                                }
                            }
                            if res != CallRes::Ok {
                                return viol("ok-expected", i, format!("stream accepted {} of {} bytes ({:?}) but try_write returned {:?}", took, offered, op, res), &sig);
                            }
                        }
                        WrOp::Eagain | WrOp::Epipe | WrOp::Reset | WrOp::Zero | WrOp::Errno(_) => {
                            st.fault(match op {
                                WrOp::Errno(_) => "F-werr:other-errno",
                                WrOp::Eagain => "F-werr:EAGAIN",
                                WrOp::Epipe => "F-werr:EPIPE",
                                WrOp::Reset => "F-werr:ECONNRESET",
                                _ => "F-werr:zero",
                            });
                            if unsent_resps >= 2 {
                                nontrivial = true;
                                st.probe("discard_with_2_queued");
                            }
                            if res != CallRes::Closed {
                                return viol("closed-expected", i, format!("stream failed with {:?} but try_write returned {:?}", op, res), &sig);
                            }
                            if conn.pending_write() {
                                return viol("not-discarded", i, format!("after {:?} the connection still reports pending output", op), &sig);
                            }
                            // model: everything pending is gone; later enqueues start afresh
                            base = conn.sh.borrow().accepted.len();
                            expected.clear();
                            queued_resps.clear();
                        }
                    }
                    }
                }
            }
            // invariants after every step
            let s = conn.sh.borrow();
            let got = &s.accepted[base..];
            if got.len() > expected.len() || got != &expected[..got.len()] {
                let k = got.iter().zip(expected.iter()).position(|(a, b)| a != b).unwrap_or(got.len().min(expected.len()));
                return viol(
                    "not-a-prefix",
                    i,
                    format!(
                        "accepted bytes are not a prefix of the queued responses: first difference at offset {} (accepted {} bytes, expected stream {} bytes)",
                        k,
                        got.len(),
                        expected.len()
                    ),
                    &sig,
                );
            }
            let pending_model = got.len() < expected.len();
            drop(s);
            let pw = catch_unwind(AssertUnwindSafe(|| conn.pending_write()));
            match pw {
                Ok(p) => {
                    sig.u(p as u64);
                    if p != pending_model {
                        return viol(
                            "pending-flag",
                            i,
                            format!("pending_write() = {} but {} byte(s) of queued output are unsent", p, expected.len() - (conn.sh.borrow().accepted.len() - base)),
                            &sig,
                        );
                    }
                }
                Err(_) => return viol("panic", i, "pending_write panicked".into(), &sig),
            }
        }
        Ok(RunOut { violation: None, nontrivial, sig: sig.get(), trace_hash: sig.get() })
    }
    fn shrink(&self, case: &J) -> Vec<J> {
        let c = match WrCase::from_json(case) {
            Ok(c) => c,
            Err(_) => return vec![],
        };
        let mut out = Vec::new();
        for (a, b) in removal_ranges(c.steps.len(), 40) {
            let mut d = c.clone();
            d.steps.drain(a..b);
            out.push(d.to_json());
        }
        for (i, s) in c.steps.iter().enumerate() {
            match s {
                WStep::Enq(r) => {
                    for r2 in r.shrink() {
                        let mut d = c.clone();
                        d.steps[i] = WStep::Enq(r2);
                        out.push(d.to_json());
                    }
                }
                WStep::Wr(WrOp::Accept(n)) if *n != usize::MAX => {
                    let mut d = c.clone();
                    d.steps[i] = WStep::Wr(WrOp::Accept(usize::MAX));
                    out.push(d.to_json());
                }
                _ => {}
            }
        }
        out
    }
}

// =========================================================================== C05

struct ScriptSink {
    /// true when the previous call was interrupted (never interrupt twice in a row: a sink
    /// that is interrupted for ever makes std's write_all retry for ever, by contract)
    last_eintr: bool,
    beh: Vec<WrOp>,
    idx: usize,
    accepted: Vec<u8>,
    calls: u64,
    /// fail with EPIPE once this many bytes have been accepted
    fail_after: Option<usize>,
}

impl io::Write for ScriptSink {
    fn write(&mut self, buf: &[u8]) -> io::Result<usize> {
        simkernel::heartbeat::beat();
        self.calls += 1;
        if let Some(j) = self.fail_after {
            if self.accepted.len() >= j {
                return Err(io::Error::from_raw_os_error(libc::EPIPE));
            }
        }
        let op = if self.beh.is_empty() { WrOp::Accept(usize::MAX) } else { self.beh[self.idx % self.beh.len()].clone() };
        self.idx += 1;
        let op = if self.last_eintr && op == WrOp::Eintr { WrOp::Accept(1) } else { op };
        self.last_eintr = op == WrOp::Eintr;
        match op {
            WrOp::Accept(n) => {
                let mut k = n.max(1).min(buf.len());
                if let Some(j) = self.fail_after {
                    k = k.min(j - self.accepted.len());
                }
                self.accepted.extend_from_slice(&buf[..k]);
                Ok(k)
            }
            WrOp::Eintr => Err(io::Error::from_raw_os_error(libc::EINTR)),
            _ => Err(io::Error::from_raw_os_error(libc::EPIPE)),
        }
    }
    fn flush(&mut self) -> io::Result<()> {
        Ok(())
    }
}

#[derive(Clone, Debug)]
struct RespCase {
    recipes: Vec<Recipe>,
    sink: Vec<WrOp>,
    fail_after: Option<usize>,
}

impl RespCase {
    fn to_json(&self) -> J {
        json::obj(vec![
            ("engine", json::s("B")),
            ("responses", J::Arr(self.recipes.iter().map(|r| r.to_json()).collect())),
            ("sink", J::Arr(self.sink.iter().map(wrop_to_json).collect())),
            ("fail_after", match self.fail_after {
                Some(n) => json::u(n),
                None => J::Null,
            }),
        ])
    }
    fn from_json(j: &J) -> Result<RespCase, String> {
        let mut recipes = Vec::new();
        for r in j.req_arr("responses")? {
            recipes.push(Recipe::from_json(r)?);
        }
        let mut sink = Vec::new();
        for o in j.req_arr("sink")? {
            sink.push(wrop_from_json(o)?);
        }
        Ok(RespCase { recipes, sink, fail_after: j.get("fail_after").and_then(|x| x.usize()) })
    }
}

pub struct C05;

impl Prop for C05 {
    fn id(&self) -> &'static str {
        "C05"
    }
    fn runs(&self, tier: Tier) -> u64 {
        match tier {
            Tier::Quick => 3_000_000,
            Tier::Thorough => 40_000_000,
        }
    }
    fn rule(&self) -> &'static str {
        "one run = 1..4 responses, each built by a program of <=5 builder calls over 2 versions x 11 status codes (bodies 0..64 KiB of arbitrary \
         bytes incl. CRLFCRLF and status-line look-alikes), written with Response::write_all into a scripted sink (all-at-once, k-byte writes, EINTR, or \
         an error after j bytes); oracles: bytes equal the reference serialiser's for every sink behaviour, the independent reader recovers status, \
         version, headers and body of each response from the concatenation, Content-Length presence rule for all codes, error => accepted bytes are a \
         prefix; the fault dimension is the sink only (thin); non-trivial = some body non-empty or >=2 builder calls; distinct = distinct (codes, \
         program shapes, sink behaviour classes)"
    }
    fn components(&self) -> (Vec<&'static str>, Vec<&'static str>) {
        (vec!["src/response.rs (Response builder API, write_all)", "src/common/mod.rs (Body, Version)"], vec!["sink (scripted Write)"])
    }
    fn gen_inner(&self, rng: &mut Rng, _tier: Tier, _index: u64) -> J {
        let n = 1 + rng.weighted(&[50, 25, 15, 10]);
        let big = rng.chance(1, 50);
        let mut recipes: Vec<Recipe> = (0..n).map(|_| gen_recipe(rng, 5, if big { 65536 } else { 2048 })).collect();
        if !cfg!(miri) && rng.chance(1, 2500) {
            // mega: a body of 1..3 MiB, in front of the others
            let len = *rng.pick(&[1usize << 20, (1 << 20) + 1, 1_500_000, 2 << 20, 3_000_000]);
            recipes.insert(0, Recipe { version: 1, code: 200, program: vec![BOp::SetBodyFill(len, rng.below(256) as u8)] });
            let sink = vec![WrOp::Accept(rng.range(50_000, 700_000)), WrOp::Eintr, WrOp::Accept(usize::MAX)];
            return RespCase { recipes, sink, fail_after: None }.to_json();
        }
        let sink = match rng.below(5) {
            0 => vec![],
            1 => vec![WrOp::Accept(1)],
            2 => vec![WrOp::Accept(rng.range(1, 50)), WrOp::Eintr],
            3 => (0..rng.range(1, 6)).map(|_| if rng.chance(1, 4) { WrOp::Eintr } else { WrOp::Accept(rng.range(1, 2000)) }).collect(),
            _ => vec![WrOp::Accept(usize::MAX), WrOp::Eintr, WrOp::Accept(3)],
        };
        let fail_after = if rng.chance(1, 8) { Some(rng.below(400)) } else { None };
        RespCase { recipes, sink, fail_after }.to_json()
    }
    fn exec_inner(&self, case: &J, st: &mut Stats) -> Result<RunOut, String> {
        let case = RespCase::from_json(case)?;
        let mut sig = Sig::new();
        let viol = |class: &str, step: usize, detail: String| {
            Ok(RunOut { violation: Some(Violation::new(&format!("C05:{}", class), step, detail)), nontrivial: true, sig: 0, trace_hash: 0 })
        };
        let mut sink = ScriptSink { last_eintr: false, beh: case.sink.clone(), idx: 0, accepted: vec![], calls: 0, fail_after: case.fail_after };
        let mut expected_all: Vec<u8> = Vec::new();
        let mut specs: Vec<RespSpec> = Vec::new();
        // was the length set or removed explicitly? (then the presence rule does not apply, and the
        // stream is self-delimiting only if the explicit value happens to agree with the body)
        let mut explicit: Vec<bool> = Vec::new();
        let mut nontrivial = false;
        let mut failed = false;
        for (i, recipe) in case.recipes.iter().enumerate() {
            st.steps += 1;
            // every third response with two or more builder calls is also written once half-way
            // through its program (write, change, write again)
            let mid = if recipe.program.len() >= 2 && (recipe.program.len() + i) % 3 == 0 { Some(recipe.program.len() / 2) } else { None };
            let built = catch_unwind(AssertUnwindSafe(|| recipe.build_staged(mid)));
            let (resp, spec, at_mid) = match built {
                Ok(x) => x,
                Err(_) => return viol("panic", i, "builder call panicked".into()),
            };
            if let Some((got, want)) = at_mid {
                st.probe("response_written_midway_then_changed");
                if got != want {
                    let d = got.iter().zip(want.iter()).position(|(a, b)| a != b).unwrap_or(got.len().min(want.len()));
                    return viol("midway-bytes-differ", i, format!("response #{} written after {} of its builder calls: first difference from the reference serialiser at offset {}", i, mid.unwrap_or(0), d));
                }
            }
            if recipe.program.len() >= 2 || spec.body.as_ref().map(|b| !b.is_empty()).unwrap_or(false) {
                nontrivial = true;
            }
            sig.u(recipe.code as u64 * 2 + recipe.version as u64);
            for op in &recipe.program {
                sig.u(match op {
                    BOp::SetBody(b) => 10 + (b.len().min(3)) as u64,
                    BOp::SetBodyFill(..) => 14,
                    BOp::SetContentType(m) => 20 + *m as u64,
                    BOp::SetDeprecation => 30,
                    BOp::SetEncoding => 31,
                    BOp::SetServer(_) => 32,
                    BOp::SetAllow(m) => 40 + m.len() as u64,
                    BOp::AllowMethod(m) => 50 + *m as u64,
                    BOp::SetContentLength(n) => match n {
                        None => 60,
                        Some(x) if *x < 0 => 61,
                        Some(0) => 62,
                        Some(_) => 63,
                    },
                });
            }
            let exp = serialize_response(&spec);
            // all-at-once reference run (a plain Vec sink)
            let mut plain: Vec<u8> = Vec::new();
            let r0 = catch_unwind(AssertUnwindSafe(|| resp.write_all(&mut plain)));
            st.lib_calls += 1;
            match r0 {
                Ok(Ok(())) => {}
                Ok(Err(e)) => return viol("vec-sink-error", i, format!("write_all into a Vec failed: {}", e)),
                Err(_) => return viol("panic", i, "write_all panicked".into()),
            }
            if plain != exp {
                let k = plain.iter().zip(exp.iter()).position(|(a, b)| a != b).unwrap_or(plain.len().min(exp.len()));
                return viol(
                    "bytes-differ-from-reference",
                    i,
                    format!(
                        "response #{} ({} {}): first difference at byte {}: got {:?} expected {:?}",
                        i,
                        recipe.code,
                        recipe.version,
                        k,
                        json::show(&plain[k.saturating_sub(20)..(k + 30).min(plain.len())]),
                        json::show(&exp[k.saturating_sub(20)..(k + 30).min(exp.len())])
                    ),
                );
            }
            // scripted sink
            let before = sink.accepted.len();
            let r1 = catch_unwind(AssertUnwindSafe(|| resp.write_all(&mut sink)));
            st.lib_calls += 1;
            match r1 {
                Ok(Ok(())) => {
                    if sink.accepted[before..] != exp[..] {
                        return viol("sink-dependent-bytes", i, format!("response #{}: bytes differ under sink behaviour {:?}", i, case.sink));
                    }
                    if sink.fail_after.map(|j| sink.accepted.len() > j).unwrap_or(false) {
                        return viol("harness", i, "sink accepted more than allowed".into());
                    }
                }
                Ok(Err(_)) => {
                    st.fault("F-werr:sink-error");
                    let got = &sink.accepted[before..];
                    if got.len() > exp.len() || got != &exp[..got.len()] {
                        return viol("error-not-prefix", i, "after a sink error the accepted bytes are not a prefix of the response".into());
                    }
                    if case.fail_after.is_none() {
                        return viol("spurious-error", i, "write_all failed although the sink never failed".into());
                    }
                    failed = true;
                }
                Err(_) => return viol("panic", i, "write_all panicked".into()),
            }
            if failed {
                break;
            }
            if case.fail_after.is_some() && sink.accepted.len() - before < exp.len() {
                return viol("silent-truncation", i, "write_all returned Ok but the sink refused bytes".into());
            }
            expected_all.extend(exp);
            explicit.push(recipe.program.iter().any(|op| matches!(op, BOp::SetContentLength(_))));
            specs.push(spec);
        }
        if sink.beh.iter().any(|b| matches!(b, WrOp::Eintr)) && sink.calls > 0 {
            st.fault("F-wintr");
        }
        if sink.beh.iter().any(|b| matches!(b, WrOp::Accept(n) if *n < 4096)) {
            st.fault("F-short");
        }
        sig.u(case.sink.len() as u64 * 4 + case.fail_after.is_some() as u64);
        // independent reader over the concatenation of everything completely written
        let self_delimiting = specs.iter().all(|s| {
            let bl = s.body.as_ref().map(|b| b.len()).unwrap_or(0) as i64;
            match s.content_length {
                Some(n) => n == bl,
                None => bl == 0,
            }
        });
        if !self_delimiting {
            st.probe("explicit_length_disagrees_with_body");
            return Ok(RunOut { violation: None, nontrivial, sig: sig.get(), trace_hash: sig.get() });
        }
        let (resps, used) = match read_responses(&expected_all) {
            Ok(x) => x,
            Err(e) => return viol("reader-rejects", 0, format!("independent reader: {}", e)),
        };
        if used != expected_all.len() || resps.len() != specs.len() {
            return viol(
                "framing-ambiguous",
                0,
                format!("concatenation of {} responses ({} bytes) read back as {} responses using {} bytes", specs.len(), expected_all.len(), resps.len(), used),
            );
        }
        for (i, (r, s)) in resps.iter().zip(specs.iter()).enumerate() {
            let body = s.body.clone().unwrap_or_default();
            if r.code != s.code || r.version != s.version {
                return viol("status-or-version", i, format!("response #{}: read back {} v{} expected {} v{}", i, r.code, r.version, s.code, s.version));
            }
            // Content-Length rule
            let cl = r.header("Content-Length");
            let must_have = if explicit[i] { s.content_length.is_some() } else { (s.code != 100 && s.code != 204) || s.body.is_some() };
            if must_have != cl.is_some() {
                return viol("content-length-presence", i, format!("response #{} status {} body set {}: Content-Length present = {}", i, s.code, s.body.is_some(), cl.is_some()));
            }
            if let Some(v) = cl {
                if v.parse::<usize>().ok() != Some(body.len()) {
                    return viol("content-length-value", i, format!("response #{}: Content-Length {} but body has {} bytes", i, v, body.len()));
                }
            }
            if r.body != body {
                return viol("body", i, format!("response #{}: body read back differs", i));
            }
            if r.header("Server") != Some(s.server.trim_matches(' ')) {
                return viol("server-header", i, format!("response #{}: Server header {:?} expected {:?}", i, r.header("Server"), s.server));
            }
            if r.header("Connection") != Some("keep-alive") {
                return viol("connection-header", i, format!("response #{}: Connection header {:?}", i, r.header("Connection")));
            }
            if r.header("Deprecation").is_some() != s.deprecation || r.header("Allow").is_some() != !s.allow.is_empty() {
                return viol("optional-headers", i, format!("response #{}: Deprecation/Allow presence wrong", i));
            }
            if r.header("Content-Type").is_some() != cl.is_some() || r.header("Accept-Encoding").is_some() != (cl.is_some() && s.accept_encoding) {
                return viol("length-dependent-headers", i, format!("response #{}: Content-Type/Accept-Encoding presence wrong", i));
            }
        }
        Ok(RunOut { violation: None, nontrivial, sig: sig.get(), trace_hash: sig.get() })
    }
    fn shrink(&self, case: &J) -> Vec<J> {
        let c = match RespCase::from_json(case) {
            Ok(c) => c,
            Err(_) => return vec![],
        };
        let mut out = Vec::new();
        if c.recipes.len() > 1 {
            for k in 0..c.recipes.len() {
                let mut d = c.clone();
                d.recipes.remove(k);
                out.push(d.to_json());
            }
        }
        if !c.sink.is_empty() {
            let mut d = c.clone();
            d.sink.clear();
            out.push(d.to_json());
        }
        if c.fail_after.is_some() {
            let mut d = c.clone();
            d.fail_after = None;
            out.push(d.to_json());
        }
        for (k, r) in c.recipes.iter().enumerate() {
            for r2 in r.shrink() {
                let mut d = c.clone();
                d.recipes[k] = r2;
                out.push(d.to_json());
            }
        }
        out
    }
}
