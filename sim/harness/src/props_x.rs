//! C03 (no panic / hang / block, also after errors) and C12 (descriptor passing).

use std::os::unix::io::{AsRawFd, RawFd};
use std::panic::{catch_unwind, AssertUnwindSafe};

use micro_http::{Encoding, Headers, MediaType, Method, Request, Version};

use crate::core::{removal_ranges, Prop, RunOut, Stats, Tier, Violation};
use crate::enga::{ConnCase, SchedCursor};
use crate::gen::{self, gen_schedule, GenCfg};
use crate::json::{self, J};
use crate::model::{model_stream, MEvent, WINDOW};
use crate::obs::{CallRes, Conn};
use crate::props_w::gen_recipe;
use crate::rng::{Rng, Sig};
use crate::simstream::{RdOp, WrOp};

// =========================================================================== C03

#[derive(Clone, Debug, PartialEq, Eq)]
enum FOp {
    Rd(RdOp),
    Wr(WrOp),
    Enq(u16, usize),
    Pop,
    /// clear_write_buffer()
    Clear,
    /// set_payload_max_size(n) in the middle of the history
    SetLimit(usize),
}

#[derive(Clone, Debug)]
struct FuzzCase {
    limit: Option<usize>,
    stream: Vec<u8>,
    ops: Vec<FOp>,
}

fn fop_to_json(o: &FOp) -> J {
    match o {
        FOp::Rd(RdOp::Data(n, _)) => J::Arr(vec![json::s("read"), if *n == usize::MAX { json::i(-1) } else { json::u(*n) }]),
        FOp::Rd(RdOp::Eagain) => J::Arr(vec![json::s("read_eagain")]),
        FOp::Rd(RdOp::Eintr) => J::Arr(vec![json::s("read_eintr")]),
        FOp::Rd(RdOp::Reset) => J::Arr(vec![json::s("read_reset")]),
        FOp::Rd(RdOp::Eof(_)) => J::Arr(vec![json::s("read_eof")]),
        FOp::Wr(WrOp::Accept(n)) => J::Arr(vec![json::s("write"), if *n == usize::MAX { json::i(-1) } else { json::u(*n) }]),
        FOp::Wr(WrOp::Eintr) => J::Arr(vec![json::s("write_eintr")]),
        FOp::Wr(WrOp::Eagain) => J::Arr(vec![json::s("write_eagain")]),
        FOp::Wr(WrOp::Epipe) => J::Arr(vec![json::s("write_epipe")]),
        FOp::Wr(WrOp::Reset) => J::Arr(vec![json::s("write_reset")]),
        FOp::Wr(WrOp::Errno(e)) => J::Arr(vec![json::s("write_errno"), json::i(*e)]),
        FOp::Wr(WrOp::Zero) => J::Arr(vec![json::s("write_zero")]),
        FOp::Enq(c, n) => J::Arr(vec![json::s("enqueue"), json::u(*c as usize), json::u(*n)]),
        FOp::Pop => J::Arr(vec![json::s("pop")]),
        FOp::Clear => J::Arr(vec![json::s("clear_write_buffer")]),
        FOp::SetLimit(n) => J::Arr(vec![json::s("set_payload_max_size"), json::u(*n)]),
    }
}

fn fop_from_json(j: &J) -> Result<FOp, String> {
    let a = j.arr().ok_or("op")?;
    let k = a.first().and_then(|x| x.str()).ok_or("op kind")?;
    let num = |i: usize| -> Result<usize, String> {
        let x = a.get(i).and_then(|x| x.int()).ok_or("op arg")?;
        Ok(if x < 0 { usize::MAX } else { x as usize })
    };
    Ok(match k {
        "read" => FOp::Rd(RdOp::Data(num(1)?, 0)),
        "read_eagain" => FOp::Rd(RdOp::Eagain),
        "read_eintr" => FOp::Rd(RdOp::Eintr),
        "read_reset" => FOp::Rd(RdOp::Reset),
        "read_eof" => FOp::Rd(RdOp::Eof(0)),
        "write" => FOp::Wr(WrOp::Accept(num(1)?)),
        "write_eintr" => FOp::Wr(WrOp::Eintr),
        "write_eagain" => FOp::Wr(WrOp::Eagain),
        "write_epipe" => FOp::Wr(WrOp::Epipe),
        "write_reset" => FOp::Wr(WrOp::Reset),
        "write_errno" => FOp::Wr(WrOp::Errno(a.get(1).and_then(|x| x.int()).ok_or("errno")? as i32)),
        "write_zero" => FOp::Wr(WrOp::Zero),
        "enqueue" => FOp::Enq(num(1)? as u16, num(2)?),
        "pop" => FOp::Pop,
        "clear_write_buffer" => FOp::Clear,
        "set_payload_max_size" => FOp::SetLimit(num(1)?),
        _ => return Err(format!("unknown op {}", k)),
    })
}

impl FuzzCase {
    fn to_json(&self) -> J {
        json::obj(vec![
            ("engine", json::s("A-fuzz")),
            ("limit", match self.limit {
                Some(l) => json::u(l),
                None => J::Null,
            }),
            ("stream", json::hex(&self.stream)),
            ("stream_text", json::s(&json::show(&self.stream))),
            ("ops", J::Arr(self.ops.iter().map(fop_to_json).collect())),
        ])
    }
    fn from_json(j: &J) -> Result<FuzzCase, String> {
        let mut ops = Vec::new();
        for o in j.req_arr("ops")? {
            ops.push(fop_from_json(o)?);
        }
        Ok(FuzzCase { limit: j.get("limit").and_then(|x| x.usize()), stream: j.req_hex("stream")?, ops })
    }
}

pub struct C03;

fn pure_entry_points(bytes: &[u8], st: &mut Stats) -> Result<(), String> {
    macro_rules! guard {
        ($name:expr, $e:expr) => {{
            st.lib_calls += 1;
            if catch_unwind(AssertUnwindSafe(|| {
                let _ = $e;
            }))
            .is_err()
            {
                return Err(format!("{} panicked", $name));
            }
        }};
    }
    guard!("Request::try_from(None)", Request::try_from(bytes, None).map(|r| r.uri().get_abs_path().len()));
    guard!("Request::try_from(Some(len))", Request::try_from(bytes, Some(bytes.len())));
    guard!("Request::try_from(Some(len+1))", Request::try_from(bytes, Some(bytes.len() + 1)).map(|r| r.uri().get_abs_path().len()));
    guard!("Request::try_from(Some(0))", Request::try_from(bytes, Some(0)));
    guard!("Headers::try_from", Headers::try_from(bytes));
    guard!("Encoding::try_from", Encoding::try_from(bytes));
    guard!("MediaType::try_from", MediaType::try_from(bytes));
    guard!("Method::try_from", Method::try_from(bytes));
    guard!("Version::try_from", Version::try_from(bytes));
    // line by line
    let mut h = Headers::default();
    for line in bytes.split(|&c| c == b'\n').take(64) {
        let line = line.strip_suffix(b"\r").unwrap_or(line);
        guard!("Headers::parse_header_line", h.parse_header_line(line));
        guard!("Encoding::try_from(line)", Encoding::try_from(line));
        guard!("MediaType::try_from(line)", MediaType::try_from(line));
    }
    // sub-slices: head of the stream up to each CRLFCRLF boundary
    if let Some(p) = bytes.windows(4).position(|w| w == b"\r\n\r\n") {
        guard!("Request::try_from(head)", Request::try_from(&bytes[..p + 4], None).map(|r| r.uri().get_abs_path().len()));
        if let Some(q) = bytes.windows(2).position(|w| w == b"\r\n") {
            if q + 2 <= p + 4 {
                guard!("Headers::try_from(block)", Headers::try_from(&bytes[q + 2..p + 4]));
            }
        }
    }
    Ok(())
}

impl Prop for C03 {
    fn id(&self) -> &'static str {
        "C03"
    }
    fn runs(&self, tier: Tier) -> u64 {
        match tier {
            Tier::Quick => 2_000_000,
            Tier::Thorough => 30_000_000,
        }
    }
    fn rule(&self) -> &'static str {
        "one run = a byte string (random bytes; grammar output; grammar output with corruption/mutation; NUL/CR/LF/0x80-0xFF runs; lengths 0..60 KiB) \
         and a seeded sequence of connection calls over it: data reads of drawn sizes, EAGAIN/EINTR/ECONNRESET/EOF reads, try_write with every stream \
         behaviour, enqueue_response, pop -- CONTINUING after every ParseError, StreamReadError, ConnectionClosed and InvalidWrite until the script ends; \
         oracles: catch_unwind around every call (no panic), at most one receive per try_read and no write, at most one write per try_write and no \
         receive, no write call for InvalidWrite, every call returns (watchdog); the pure entry points are called on the same bytes under catch_unwind \
         (plain input generation, no schedule); non-trivial = at least one error return followed by a further call; distinct = distinct sequences \
         of (call kind, result class)"
    }
    fn components(&self) -> (Vec<&'static str>, Vec<&'static str>) {
        (
            vec![
                "src/connection.rs",
                "src/request.rs (Request::try_from, Uri::get_abs_path)",
                "src/common/headers.rs (Headers::try_from, parse_header_line, Encoding, MediaType)",
                "src/common/mod.rs (Method, Version)",
                "src/response.rs",
            ],
            vec!["stream (SimStream)"],
        )
    }
    fn gen_inner(&self, rng: &mut Rng, _tier: Tier, _index: u64) -> J {
        let limit = if rng.chance(2, 3) { None } else { Some(*rng.pick(&[0usize, 1, 7, 100, 1024, usize::MAX >> 1])) };
        let mut cfg = GenCfg::default_for(limit.unwrap_or(51200).min(51200));
        cfg.corrupt = 500;
        cfg.mutate = 400;
        cfg.truncate = 200;
        cfg.fatal_hdr = 100;
        cfg.allow_big = rng.chance(1, 6);
        let stream = match rng.weighted(&[55, 15, 10, 10, 10]) {
            0 => gen::gen_stream(rng, &cfg, "f"),
            1 => {
                let n = rng.weighted(&[30, 40, 25, 5]);
                let len = match n {
                    0 => rng.below(16),
                    1 => rng.range(16, 300),
                    2 => rng.range(300, 3000),
                    _ => rng.range(3000, 60_000),
                };
                rng.bytes(len)
            }
            2 => {
                // runs of special bytes
                let len = rng.range(1, 2500);
                let alphabets: [&[u8]; 4] = [b"\r\n", b"\r\n :", b"\x00\r\n\xff\x80 ", b"GET / HTP1.\r\n:"];
                let alphabet: &[u8] = alphabets[rng.below(4)];
                (0..len).map(|_| alphabet[rng.below(alphabet.len())]).collect()
            }
            3 => {
                // valid head followed by garbage
                let mut s = gen::gen_request(rng, &cfg, "g").render();
                let extra = rng.below(1500);
                s.extend(rng.bytes(extra));
                s
            }
            4 if rng.chance(1, 60) => {
                // a header block of thousands of lines
                let n = *rng.pick(&[2_000usize, 12_000, 30_000]);
                let mut s = b"PUT /huge HTTP/1.1\r\n".to_vec();
                for i in 0..n {
                    s.extend(format!("h{}: v\r\n", i).as_bytes());
                }
                s.extend(b"\r\n");
                s
            }
            _ => {
                // many blank lines / lone CRs around the window size
                let mut s = Vec::new();
                let n = rng.range(1000, 1100);
                let c = *rng.pick(&[b'\r', b'\n', b' ', b'A', 0u8]);
                s.extend(std::iter::repeat(c).take(n));
                s.extend(b"\r\n");
                s.extend(gen::gen_request(rng, &cfg, "h").render());
                s
            }
        };
        let nops = rng.range(3, 120);
        let mut ops = Vec::new();
        for _ in 0..nops {
            ops.push(match rng.weighted(&[40, 5, 5, 3, 3, 14, 4, 3, 2, 2, 2, 10, 7, 2, 2]) {
                0 => FOp::Rd(RdOp::Data(
                    match rng.below(5) {
                        0 => 1,
                        1 => rng.range(1, 30),
                        2 => rng.range(1, 1024),
                        3 => 1024,
                        _ => usize::MAX,
                    },
                    0,
                )),
                1 => FOp::Rd(RdOp::Eagain),
                2 => FOp::Rd(RdOp::Eintr),
                3 => FOp::Rd(RdOp::Reset),
                4 => FOp::Rd(RdOp::Eof(0)),
                5 => FOp::Wr(WrOp::Accept(match rng.below(3) {
                    0 => 1,
                    1 => rng.range(1, 200),
                    _ => usize::MAX,
                })),
                6 => FOp::Wr(WrOp::Eintr),
                7 => FOp::Wr(WrOp::Eagain),
                8 => FOp::Wr(WrOp::Epipe),
                9 => FOp::Wr(WrOp::Reset),
                10 => FOp::Wr(WrOp::Zero),
                11 => FOp::Enq(*rng.pick(&crate::model::STATUS_CODES), rng.below(300)),
                12 => FOp::Pop,
                13 => FOp::Clear,
                _ => FOp::SetLimit(*rng.pick(&[0usize, 1, 5, 1024, 51200, 4294967296, usize::MAX])),
            });
        }
        FuzzCase { limit, stream, ops }.to_json()
    }
    fn exec_inner(&self, case: &J, st: &mut Stats) -> Result<RunOut, String> {
        let case = FuzzCase::from_json(case)?;
        let mut conn = Conn::new(case.stream.clone(), case.limit);
        let mut sig = Sig::new();
        let mut errors_then_call = false;
        let mut had_error = false;
        let viol = |class: &str, step: usize, detail: String, sig: &Sig| {
            Ok(RunOut {
                violation: Some(Violation::new(&format!("C03:{}", class), step, detail)),
                nontrivial: true,
                sig: sig.get(),
                trace_hash: sig.get(),
            })
        };
        for (i, op) in case.ops.iter().enumerate() {
            st.steps += 1;
            if had_error {
                errors_then_call = true;
            }
            match op {
                FOp::Rd(r) => {
                    let res = conn.try_read(r.clone());
                    st.lib_calls += 1;
                    sig.u(10);
                    sig.u(res.code());
                    match r {
                        RdOp::Eagain | RdOp::Eintr => st.fault("F-empty"),
                        RdOp::Reset => st.fault("F-rst"),
                        RdOp::Eof(_) => st.fault("F-eof"),
                        _ => {}
                    }
                    if let CallRes::Panic(m) = &res {
                        return viol("panic", i, format!("try_read panicked: {}", m), &sig);
                    }
                    if conn.last_recvs > 1 {
                        return viol("multiple-receives", i, format!("try_read performed {} receives", conn.last_recvs), &sig);
                    }
                    if conn.last_writes > 0 {
                        return viol("write-in-read", i, "try_read wrote to the stream".into(), &sig);
                    }
                    if res != CallRes::Ok {
                        had_error = true;
                        match res {
                            CallRes::Parse(_) => st.probe("continued_after_parse_error"),
                            CallRes::StreamRead(_) => st.probe("continued_after_stream_error"),
                            CallRes::Closed => st.probe("continued_after_closed"),
                            _ => {}
                        }
                    }
                }
                FOp::Wr(w) => {
                    let res = conn.try_write(w.clone());
                    st.lib_calls += 1;
                    sig.u(20);
                    sig.u(res.code());
                    if let CallRes::Panic(m) = &res {
                        return viol("panic", i, format!("try_write panicked: {}", m), &sig);
                    }
                    if conn.last_writes > 1 {
                        return viol("multiple-writes", i, format!("try_write performed {} writes", conn.last_writes), &sig);
                    }
                    if conn.last_recvs > 0 {
                        return viol("receive-in-write", i, "try_write received from the stream".into(), &sig);
                    }
                    if res == CallRes::InvalidWrite && conn.last_writes != 0 {
                        return viol("invalid-write-touched-stream", i, "InvalidWrite but the stream was written to".into(), &sig);
                    }
                    if res != CallRes::Ok {
                        had_error = true;
                        if res == CallRes::InvalidWrite {
                            st.probe("continued_after_invalid_write");
                        }
                    }
                }
                FOp::Enq(code, n) => {
                    let body: Vec<u8> = (0..*n).map(|k| b'a' + (k % 26) as u8).collect();
                    let (resp, _) = crate::obs::simple_response(1, *code, if *n == 0 { None } else { Some(&body) });
                    st.lib_calls += 1;
                    sig.u(30);
                    if catch_unwind(AssertUnwindSafe(|| conn.c.enqueue_response(resp))).is_err() {
                        return viol("panic", i, "enqueue_response panicked".into(), &sig);
                    }
                }
                FOp::Clear => {
                    st.lib_calls += 1;
                    sig.u(50);
                    if catch_unwind(AssertUnwindSafe(|| conn.c.clear_write_buffer())).is_err() {
                        return viol("panic", i, "clear_write_buffer panicked".into(), &sig);
                    }
                }
                FOp::SetLimit(n) => {
                    st.lib_calls += 1;
                    sig.u(51);
                    if catch_unwind(AssertUnwindSafe(|| conn.c.set_payload_max_size(*n))).is_err() {
                        return viol("panic", i, "set_payload_max_size panicked".into(), &sig);
                    }
                }
                FOp::Pop => {
                    st.lib_calls += 1;
                    let r = catch_unwind(AssertUnwindSafe(|| {
                        let mut n = 0;
                        while let Some(req) = conn.c.pop_parsed_request() {
                            let _ = req.uri().get_abs_path();
                            n += 1;
                        }
                        n
                    }));
                    match r {
                        Ok(n) => {
                            sig.u(40 + (n as u64).min(3));
                        }
                        Err(_) => return viol("panic", i, "pop_parsed_request / get_abs_path panicked".into(), &sig),
                    }
                }
            }
        }
        if let Err(d) = pure_entry_points(&case.stream, st) {
            return viol("panic-pure", case.ops.len(), d, &sig);
        }
        Ok(RunOut { violation: None, nontrivial: errors_then_call, sig: sig.get(), trace_hash: sig.get() })
    }
    fn shrink(&self, case: &J) -> Vec<J> {
        let c = match FuzzCase::from_json(case) {
            Ok(c) => c,
            Err(_) => return vec![],
        };
        let mut out = Vec::new();
        for (a, b) in removal_ranges(c.ops.len(), 40) {
            let mut d = c.clone();
            d.ops.drain(a..b);
            out.push(d.to_json());
        }
        for (a, b) in removal_ranges(c.stream.len(), 40) {
            let mut d = c.clone();
            d.stream.drain(a..b);
            out.push(d.to_json());
        }
        out
    }
}

// =========================================================================== C12

use crate::fds::{ino_of, make_pipe, pipe_eof, Pipe};

/// descriptors that only occupy low numbers for a while
struct Placeholders(Vec<RawFd>);

impl Placeholders {
    fn release(&mut self) {
        for fd in self.0.drain(..) {
            // SAFETY: opened by the harness, owned by this value.
            unsafe { libc::close(fd) };
        }
    }
}

impl Drop for Placeholders {
    fn drop(&mut self) {
        self.release();
    }
}

pub struct C12;

impl Prop for C12 {
    fn id(&self) -> &'static str {
        "C12"
    }
    fn runs(&self, tier: Tier) -> u64 {
        match tier {
            Tier::Quick => 300_000,
            Tier::Thorough => 5_000_000,
        }
    }
    fn rule(&self) -> &'static str {
        "one run = an error-free stream of 1..6 pipelined requests under a drawn read schedule, with REAL descriptors (write ends of fresh pipes) \
         attached to reads by a drawn plan (0..8 per read, occasionally up to 253; reads that complete zero, one or several requests; the EOF read); \
         oracles: request i carries exactly the descriptors that arrived up to its completing read and were not carried earlier, in arrival order, \
         identified by pipe inode (fstat), none twice; before a request/connection is dropped its pipes are not at EOF, after dropping everything every \
         pipe read end reports EOF (nothing leaked or kept alive); judged by inode and EOF, never by descriptor number; non-trivial = a descriptor \
         arrived in a read that completed 0 or >=2 requests, or with EOF; distinct = distinct sequences of (requests completed by read, descriptors in read)"
    }
    fn components(&self) -> (Vec<&'static str>, Vec<&'static str>) {
        (
            vec!["src/connection.rs (recv_with_fds, File::from_raw_fd, files -> Request.files)", "src/request.rs"],
            vec!["stream (SimStream hands real pipe descriptors to the library's fds array)"],
        )
    }
    fn gen_inner(&self, rng: &mut Rng, _tier: Tier, _index: u64) -> J {
        let mut cfg = GenCfg::default_for(51200);
        cfg.corrupt = 0;
        cfg.truncate = 100;
        cfg.mutate = 0;
        cfg.random = 0;
        cfg.fatal_hdr = 0;
        cfg.allow_big = rng.chance(1, 20);
        let mut stream;
        loop {
            stream = gen::gen_stream(rng, &cfg, "d");
            let m = model_stream(&stream, 51200, WINDOW);
            if !m.unspecified && !m.events.iter().any(|e| matches!(e.1, MEvent::Error(_))) {
                break;
            }
        }
        let m = model_stream(&stream, 51200, WINDOW);
        let sched = gen_schedule(rng, &stream, &m, WINDOW, None, false);
        let mut c = ConnCase::new(None, stream, vec![sched]);
        let nreads = 1 + rng.below(40);
        let huge = rng.chance(1, 100);
        c.fd_plan = (0..nreads)
            .map(|_| match rng.weighted(&[55, 25, 12, 6, if huge { 4 } else { 0 }]) {
                0 => 0,
                1 => 1,
                2 => rng.range(2, 4) as u16,
                3 => rng.range(5, 8) as u16,
                _ => *rng.pick(&[252u16, 253, 254, 100]),
            })
            .collect();
        if rng.chance(1, 150) {
            // descriptor counts that accumulate to exactly 255 / 256 / 257 (and 512) before a request
            // completes: a one-byte request line first, so that the descriptors arrive while it is pending
            let total = *rng.pick(&[255u16, 256, 256, 257, 512]);
            let mut left = total;
            let mut plan = Vec::new();
            while left > 0 {
                let k = left.min(*rng.pick(&[253u16, 253, 128, 100, 3, 1]));
                plan.push(k);
                left -= k;
            }
            let nplan = plan.len();
            c.fd_plan = plan;
            // one read per byte for the first reads, so that every planned batch is delivered before the
            // first request can complete
            c.scheds = vec![vec![gen::SOp::Rep(1, nplan + 1)]];
        }
        c.eof = rng.chance(2, 3);
        c.eof_fds = if c.eof && rng.chance(1, 3) { rng.range(1, 3) as u16 } else { 0 };
        // 0 = pop after every read, keep the files; 1 = pop after every read, drop at once;
        // 2 = pop only at the end (the owner calls try_read again before popping)
        c.drop_mode = rng.below(3) as u8;
        c.use_fd0 = rng.chance(1, 400);
        c.real_socket = rng.chance(1, 100);
        c.low_fd_later = !c.use_fd0 && !c.real_socket && rng.chance(1, 12);
        c.to_json()
    }
    fn exec_inner(&self, case: &J, st: &mut Stats) -> Result<RunOut, String> {
        let case = ConnCase::from_json(case)?;
        let m = model_stream(&case.stream, case.eff_limit(), WINDOW);
        if m.unspecified || m.events.iter().any(|e| matches!(e.1, MEvent::Error(_))) {
            // the property speaks about connections whose input parses without error
            st.skipped_unspecified += 1;
            return Ok(RunOut { violation: None, nontrivial: false, sig: 0, trace_hash: 0 });
        }
        let len = case.stream.len();
        let sched: &[gen::SOp] = case.scheds.first().map(|s| s.as_slice()).unwrap_or(&[]);
        // descriptor numbers are process-wide: a run that uses number 0 has the table for itself
        let (_shared, _exclusive);
        let mut placeholders = Placeholders(Vec::new());
        if case.real_socket && !case.use_fd0 {
            // the kernel picks the numbers of descriptors received over a real socket (lowest free,
            // process-wide): such a run has the descriptor table for itself
            _exclusive = Some(crate::fds::FD0_LOCK.write().unwrap_or_else(|e| e.into_inner()));
            _shared = None;
        } else if case.use_fd0 {
            _exclusive = Some(crate::fds::FD0_LOCK.write().unwrap_or_else(|e| e.into_inner()));
            _shared = None;
            // number 0 is normally occupied (stdin or a placeholder), so that no other run ever gets it;
            // free it for this run only
            // SAFETY: we hold the descriptor table exclusively; nothing reads stdin in this program.
            unsafe { libc::close(0) };
        } else {
            _shared = Some(crate::fds::FD0_LOCK.read().unwrap_or_else(|e| e.into_inner()));
            _exclusive = None;
        }
        if case.low_fd_later && !case.use_fd0 && !case.real_socket {
            for _ in 0..6 {
                if let Some(fd) = crate::fds::open_placeholder() {
                    placeholders.0.push(fd);
                }
            }
        }
        if case.real_socket {
            let out = exec_real_socket(&case, &m, sched, st);
            if case.use_fd0 {
                crate::fds::reoccupy_fd0();
            }
            return out;
        }
        let mut conn = Conn::new(case.stream.clone(), case.limit);
        let mut cur = SchedCursor::new(sched);
        let mut pipes: Vec<Pipe> = Vec::new(); // in arrival order
        let mut delivered = 0usize; // number of pipes handed to requests so far
        let mut kept: Vec<(usize, Vec<std::fs::File>)> = Vec::new();
        let mut data_reads = 0usize;
        let mut sig = Sig::new();
        let mut nontrivial = false;
        let mut step = 0;
        let mut result: Option<Violation> = None;
        let mut dropped_upto = 0usize; // pipes [0, dropped_upto) belong to dropped requests
        let mut claims: std::collections::VecDeque<usize> = std::collections::VecDeque::new();
        let mut claimed = 0usize;
        let mut done_before = 0usize;
        'run: loop {
            let pos0 = conn.pos();
            let (op, is_eof) = match cur.next(pos0, len) {
                Some(op) => (op, false),
                None => {
                    if case.eof && conn.remaining() == 0 {
                        (RdOp::Eof(case.eof_fds), true)
                    } else {
                        break;
                    }
                }
            };
            step += 1;
            st.steps += 1;
            // attach descriptors
            let want = match &op {
                RdOp::Data(_, _) => {
                    let w = case.fd_plan.get(data_reads).cloned().unwrap_or(0);
                    data_reads += 1;
                    w
                }
                RdOp::Eof(n) => *n,
                _ => 0,
            };
            let mut new_pipes = Vec::new();
            for i in 0..want.min(253) {
                match make_pipe() {
                    Ok((p, mut wr)) => {
                        // descriptor numbers are the kernel's choice: now and then the lowest free
                        // number is 0 (a process that closed stdin); the number must not matter
                        if i == 0 && case.use_fd0 {
                            // SAFETY: plain fcntl on a descriptor we own.
                            let low = unsafe { libc::fcntl(wr, libc::F_DUPFD_CLOEXEC, 0) };
                            if low == 0 {
                                // SAFETY: ours.
                                unsafe { libc::close(wr) };
                                wr = 0;
                                st.probe("descriptor_number_zero_passed");
                            } else if low > 0 {
                                // SAFETY: ours.
                                unsafe { libc::close(low) };
                            }
                        }
                        if wr != 0 {
                            wr = crate::fds::into_region(wr);
                        }
                        conn.sh.borrow_mut().fd_pool.push(wr);
                        new_pipes.push(p);
                    }
                    Err(e) => {
                        cleanup(&mut conn, &mut pipes, &mut new_pipes);
                        return Err(e);
                    }
                }
            }
            let op = match op {
                RdOp::Data(n, _) => RdOp::Data(n, want),
                other => other,
            };
            let res = conn.try_read(op);
            st.lib_calls += 1;
            // the kernel passes up to 253 descriptors with one message; a receiver that offers less room
            // loses them (truncated control data): the connection must always offer room for 253
            let room = conn.sh.borrow().last_fd_room;
            if conn.last_recvs > 0 && room < 253 {
                result = Some(Violation::new(
                    "C12:descriptor-room-too-small",
                    step,
                    format!("the receive call offered room for {} descriptors; a message may carry up to 253 and the excess would be lost", room),
                ));
                break 'run;
            }
            // descriptors the stream could not hand over (no data delivered) stay ours: close them
            let given = conn.sh.borrow().last_fds_given;
            let leftover: Vec<RawFd> = conn.sh.borrow_mut().fd_pool.drain(..).collect();
            for fd in leftover {
                // SAFETY: we created this descriptor and nobody else owns it.
                unsafe { libc::close(fd) };
            }
            new_pipes.truncate(given);
            if given > 0 && !placeholders.0.is_empty() {
                // from now on the lowest free numbers are lower than those already handed over
                placeholders.release();
                st.probe("later_descriptors_have_lower_numbers");
            }
            if given > 0 {
                st.fault("F-fdspread");
                st.probe_n("descriptors_passed", given as u64);
            }
            pipes.extend(new_pipes);
            // which requests did this read complete (reference model)? The first of them owns
            // everything that arrived and is not yet owned.
            let done_now = m.request_ends.iter().filter(|&&e| e <= conn.pos()).count();
            for k in done_before..done_now {
                if k == done_before {
                    claims.push_back(pipes.len() - claimed);
                    claimed = pipes.len();
                } else {
                    claims.push_back(0);
                }
            }
            done_before = done_now;
            let late = case.drop_mode == 2;
            let popped = if late && !is_eof { Vec::new() } else { conn.pop_all() };
            if late && !popped.is_empty() {
                st.probe("requests_popped_late");
            }
            sig.u(popped.len() as u64);
            sig.u(given.min(9) as u64);
            if given > 0 && (popped.is_empty() || popped.len() >= 2 || is_eof) {
                nontrivial = true;
                st.probe(if is_eof {
                    "descriptors_with_eof"
                } else if popped.is_empty() {
                    "descriptors_in_read_completing_no_request"
                } else {
                    "descriptors_in_read_completing_2+_requests"
                });
            }
            if let CallRes::Panic(msg) = &res {
                result = Some(Violation::new("C12:panic", step, format!("try_read panicked: {}", msg)));
                break 'run;
            }
            for (k, (_obs, files)) in popped.into_iter().enumerate() {
                // expected: the first completing request takes everything that arrived and was not yet delivered
                let _ = k;
                let exp_count = claims.pop_front().unwrap_or(0);
                if files.len() != exp_count {
                    result = Some(Violation::new(
                        "C12:wrong-descriptor-count",
                        step,
                        format!("request completing in this read (#{} of the read) carries {} descriptor(s), expected {}", k, files.len(), exp_count),
                    ));
                    drop(files);
                    break 'run;
                }
                for (j, f) in files.iter().enumerate() {
                    let ino = ino_of(f.as_raw_fd());
                    if ino != pipes[delivered + j].ino {
                        result = Some(Violation::new(
                            "C12:wrong-descriptor-identity",
                            step,
                            format!("descriptor #{} of the request is not the #{}-th descriptor that arrived (order or identity)", j, delivered + j),
                        ));
                        break 'run;
                    }
                }
                let from = delivered;
                delivered += files.len();
                if delivered > from {
                    st.probe("request_with_descriptors");
                }
                if case.drop_mode == 1 {
                    drop(files);
                    // dropped now: exactly these pipes must be at EOF, later ones not
                    for p in &pipes[from..delivered] {
                        if !pipe_eof(p.rd) {
                            result = Some(Violation::new("C12:leak", step, "a descriptor is still open after its request was dropped".into()));
                            break 'run;
                        }
                    }
                    dropped_upto = delivered;
                } else {
                    kept.push((from, files));
                }
            }
            // nothing not yet dropped may already be closed
            for p in &pipes[dropped_upto..] {
                if pipe_eof(p.rd) {
                    result = Some(Violation::new("C12:closed-early", step, "a descriptor was closed while its request / connection is still alive".into()));
                    break 'run;
                }
            }
            match res {
                CallRes::Ok => {}
                CallRes::Closed if is_eof => break,
                other => {
                    result = Some(Violation::new("C12:unexpected-result", step, format!("{:?}", other)));
                    break 'run;
                }
            }
            if is_eof {
                break;
            }
        }
        // late pop without an EOF step: verify what is still queued
        if result.is_none() {
            for (_obs, files) in conn.pop_all() {
                let exp_count = claims.pop_front().unwrap_or(0);
                if files.len() != exp_count {
                    result = Some(Violation::new(
                        "C12:wrong-descriptor-count",
                        step,
                        format!("a request popped after further reads carries {} descriptor(s); {} had arrived by the read that completed it", files.len(), exp_count),
                    ));
                    break;
                }
                let mut bad = false;
                for (j, f) in files.iter().enumerate() {
                    if ino_of(f.as_raw_fd()) != pipes[delivered + j].ino {
                        bad = true;
                    }
                }
                if bad {
                    result = Some(Violation::new("C12:wrong-descriptor-identity", step, "descriptor order or identity wrong in a request popped late".into()));
                    break;
                }
                delivered += files.len();
                kept.push((delivered, files));
            }
        }
        // drop everything: all pipes must reach EOF
        drop(kept);
        let pending_with_conn = pipes.len() - delivered;
        if pending_with_conn > 0 {
            st.probe("descriptors_left_with_connection");
        }
        let Conn { c, sh, .. } = conn;
        drop(c);
        if result.is_none() {
            for (k, p) in pipes.iter().enumerate() {
                if !pipe_eof(p.rd) {
                    result = Some(Violation::new(
                        "C12:leak",
                        step,
                        format!("descriptor #{} (arrival order) is still open after every request and the connection were dropped", k),
                    ));
                    break;
                }
            }
        }
        drop(sh);
        placeholders.release();
        if case.use_fd0 {
            // a library that leaked descriptor 0 must not poison later runs (we hold the table exclusively)
            crate::fds::reoccupy_fd0();
        }
        Ok(RunOut { violation: result, nontrivial, sig: sig.get(), trace_hash: sig.get() })
    }
    fn shrink(&self, case: &J) -> Vec<J> {
        match ConnCase::from_json(case) {
            Ok(c) => c.shrink(1).into_iter().map(|c| c.to_json()).collect(),
            Err(_) => vec![],
        }
    }
}

/// C12 without the stream stub: HttpConnection<UnixStream> over a real socketpair, descriptors
/// passed with SCM_RIGHTS by the kernel (so vmm-sys-util's recvmsg / control-message code runs too).
/// One message per scheduled read; the connection reads until the socket is empty.
fn exec_real_socket(case: &ConnCase, m: &crate::model::ModelOut, sched: &[gen::SOp], st: &mut Stats) -> Result<RunOut, String> {
    use std::os::unix::net::UnixStream;
    use vmm_sys_util::sock_ctrl_msg::ScmSocket;
    let (tx, rx) = UnixStream::pair().map_err(|e| format!("socketpair: {}", e))?;
    rx.set_nonblocking(true).map_err(|e| e.to_string())?;
    let mut conn = micro_http::HttpConnection::new(rx);
    if let Some(l) = case.limit {
        conn.set_payload_max_size(l);
    }
    st.probe("real_socketpair_run");
    let len = case.stream.len();
    let mut cur = SchedCursor::new(sched);
    let mut pos = 0usize;
    let mut pipes: Vec<Pipe> = Vec::new();
    let mut claims: std::collections::VecDeque<usize> = std::collections::VecDeque::new();
    let mut claimed = 0usize;
    let mut done_before = 0usize;
    let mut delivered = 0usize;
    let mut kept: Vec<std::fs::File> = Vec::new();
    let mut data_reads = 0usize;
    let mut sig = Sig::new();
    let mut nontrivial = false;
    let mut step = 0usize;
    let mut result: Option<Violation> = None;
    let mut tx = Some(tx);
    'run: loop {
        let op = match cur.next(pos, len) {
            Some(op) => op,
            None => break,
        };
        step += 1;
        st.steps += 1;
        let mut sent_fds = 0usize;
        if let RdOp::Data(n, _) = op {
            let k = n.min(len - pos).min(WINDOW);
            let want = (case.fd_plan.get(data_reads).cloned().unwrap_or(0) as usize).min(253);
            data_reads += 1;
            let mut wr: Vec<RawFd> = Vec::new();
            for _ in 0..want {
                match make_pipe() {
                    Ok((p, w)) => {
                        pipes.push(p);
                        wr.push(w);
                    }
                    Err(e) => return Err(e),
                }
            }
            let chunk = &case.stream[pos..pos + k];
            let r = tx.as_ref().unwrap().send_with_fds(&[chunk], &wr);
            for w in &wr {
                // SAFETY: our copies of the write ends; the kernel holds the in-flight references.
                unsafe { libc::close(*w) };
            }
            match r {
                Ok(nsent) if nsent == k => {}
                other => return Err(format!("sendmsg on the socketpair: {:?}", other.map_err(|e| e.to_string()))),
            }
            pos += k;
            sent_fds = want;
            if want > 0 {
                st.fault("F-fdspread");
                st.probe_n("descriptors_passed", want as u64);
            }
        }
        // the connection reads until the socket has nothing more
        let mut reads = 0;
        loop {
            let r = catch_unwind(AssertUnwindSafe(|| conn.try_read()));
            st.lib_calls += 1;
            reads += 1;
            match r {
                Err(_) => {
                    result = Some(Violation::new("C12:panic", step, "try_read panicked (real socket)".into()));
                    break 'run;
                }
                Ok(Ok(())) => {}
                Ok(Err(micro_http::ConnectionError::StreamReadError(e))) if e.errno() == libc::EAGAIN => break,
                Ok(Err(e)) => {
                    result = Some(Violation::new("C12:unexpected-result", step, format!("real socket: try_read returned {:?} after {} bytes", e, pos)));
                    break 'run;
                }
            }
            if reads > 8 {
                break;
            }
        }
        let done_now = m.request_ends.iter().filter(|&&e| e <= pos).count();
        for k in done_before..done_now {
            if k == done_before {
                claims.push_back(pipes.len() - claimed);
                claimed = pipes.len();
            } else {
                claims.push_back(0);
            }
        }
        if sent_fds > 0 && (done_now == done_before || done_now - done_before >= 2) {
            nontrivial = true;
        }
        done_before = done_now;
        sig.u((done_now as u64) << 8 | sent_fds.min(9) as u64);
        if case.drop_mode != 2 {
            while let Some(mut req) = conn.pop_parsed_request() {
                let files = std::mem::take(&mut req.files);
                let exp = claims.pop_front().unwrap_or(0);
                if files.len() != exp {
                    result = Some(Violation::new("C12:wrong-descriptor-count", step, format!("real socket: request carries {} descriptor(s), expected {}", files.len(), exp)));
                    break 'run;
                }
                for (j, f) in files.iter().enumerate() {
                    if ino_of(f.as_raw_fd()) != pipes[delivered + j].ino {
                        result = Some(Violation::new("C12:wrong-descriptor-identity", step, "real socket: descriptor order or identity wrong".into()));
                        break 'run;
                    }
                    if f.as_raw_fd() == 0 {
                        st.probe("descriptor_number_zero_passed");
                    }
                }
                delivered += files.len();
                kept.extend(files);
            }
        }
    }
    if result.is_none() {
        if case.eof {
            drop(tx.take());
            let r = catch_unwind(AssertUnwindSafe(|| conn.try_read()));
            match r {
                Ok(Err(micro_http::ConnectionError::ConnectionClosed)) => {}
                Ok(other) => result = Some(Violation::new("C12:unexpected-result", step, format!("real socket: at EOF try_read returned {:?}", other))),
                Err(_) => result = Some(Violation::new("C12:panic", step, "try_read panicked at EOF (real socket)".into())),
            }
        }
        while let Some(mut req) = conn.pop_parsed_request() {
            let files = std::mem::take(&mut req.files);
            let exp = claims.pop_front().unwrap_or(0);
            if files.len() != exp && result.is_none() {
                result = Some(Violation::new("C12:wrong-descriptor-count", step, format!("real socket: a request popped late carries {} descriptor(s), expected {}", files.len(), exp)));
            }
            delivered += files.len();
            kept.extend(files);
        }
    }
    drop(kept);
    drop(conn);
    drop(tx);
    if result.is_none() {
        for (k, p) in pipes.iter().enumerate() {
            if !pipe_eof(p.rd) {
                result = Some(Violation::new("C12:leak", step, format!("real socket: descriptor #{} is still open after everything was dropped", k)));
                break;
            }
        }
    }
    Ok(RunOut { violation: result, nontrivial, sig: sig.get() ^ 0x5EA1, trace_hash: sig.get() ^ 0x5EA1 })
}

fn cleanup(conn: &mut Conn, pipes: &mut Vec<Pipe>, new_pipes: &mut Vec<Pipe>) {
    for fd in conn.sh.borrow_mut().fd_pool.drain(..) {
        // SAFETY: ours.
        unsafe { libc::close(fd) };
    }
    pipes.clear();
    new_pipes.clear();
}

pub fn _unused(_r: &mut Rng) {
    let _ = gen_recipe;
}
