//! The only source of choice in a run: xoshiro256** seeded through splitmix64.

#[derive(Clone, Debug)]
pub struct Rng {
    s: [u64; 4],
    pub draws: u64,
}

pub fn splitmix64(x: &mut u64) -> u64 {
    *x = x.wrapping_add(0x9E37_79B9_7F4A_7C15);
    let mut z = *x;
    z = (z ^ (z >> 30)).wrapping_mul(0xBF58_476D_1CE4_E5B9);
    z = (z ^ (z >> 27)).wrapping_mul(0x94D0_49BB_1331_11EB);
    z ^ (z >> 31)
}

pub fn fnv1a(bytes: &[u8]) -> u64 {
    let mut h: u64 = 0xcbf2_9ce4_8422_2325;
    for b in bytes {
        h ^= *b as u64;
        h = h.wrapping_mul(0x0000_0100_0000_01B3);
    }
    h
}

/// Incremental 64-bit hasher (FNV-1a over u64 words, finalised with splitmix) used for
/// trace signatures. Not std's RandomState: must be identical in every process.
#[derive(Clone, Copy)]
pub struct Sig(pub u64);
impl Sig {
    pub fn new() -> Self {
        Sig(0xcbf2_9ce4_8422_2325)
    }
    pub fn u(&mut self, v: u64) {
        let mut x = self.0 ^ v;
        self.0 = splitmix64(&mut x);
    }
    pub fn bytes(&mut self, b: &[u8]) {
        self.u(fnv1a(b));
        self.u(b.len() as u64);
    }
    pub fn get(&self) -> u64 {
        self.0
    }
}

/// run seed = f(VERIF_SEED, property id, run index): independent of worker and worker count
pub fn run_seed(base: u64, prop: &str, index: u64) -> u64 {
    let mut x = base ^ fnv1a(prop.as_bytes()) ^ index.wrapping_mul(0x9E37_79B9_7F4A_7C15);
    splitmix64(&mut x)
}

impl Rng {
    pub fn new(seed: u64) -> Self {
        let mut x = seed;
        let s = [splitmix64(&mut x), splitmix64(&mut x), splitmix64(&mut x), splitmix64(&mut x)];
        Rng { s, draws: 0 }
    }
    pub fn next(&mut self) -> u64 {
        self.draws += 1;
        let r = self.s[1].wrapping_mul(5).rotate_left(7).wrapping_mul(9);
        let t = self.s[1] << 17;
        self.s[2] ^= self.s[0];
        self.s[3] ^= self.s[1];
        self.s[1] ^= self.s[2];
        self.s[0] ^= self.s[3];
        self.s[2] ^= t;
        self.s[3] = self.s[3].rotate_left(45);
        r
    }
    /// uniform in 0..n (n > 0)
    pub fn below(&mut self, n: usize) -> usize {
        debug_assert!(n > 0);
        ((self.next() as u128 * n as u128) >> 64) as usize
    }
    /// uniform in lo..=hi
    pub fn range(&mut self, lo: usize, hi: usize) -> usize {
        lo + self.below(hi - lo + 1)
    }
    /// true with probability num/den
    pub fn chance(&mut self, num: usize, den: usize) -> bool {
        self.below(den) < num
    }
    pub fn pick<'a, T>(&mut self, xs: &'a [T]) -> &'a T {
        &xs[self.below(xs.len())]
    }
    /// index drawn with the given weights
    pub fn weighted(&mut self, w: &[usize]) -> usize {
        let total: usize = w.iter().sum();
        let mut x = self.below(total.max(1));
        for (i, wi) in w.iter().enumerate() {
            if x < *wi {
                return i;
            }
            x -= wi;
        }
        w.len() - 1
    }
    pub fn byte(&mut self) -> u8 {
        (self.next() >> 56) as u8
    }
    pub fn bytes(&mut self, n: usize) -> Vec<u8> {
        let mut v = Vec::with_capacity(n);
        while v.len() < n {
            let r = self.next().to_le_bytes();
            let k = (n - v.len()).min(8);
            v.extend_from_slice(&r[..k]);
        }
        v
    }
    pub fn shuffle<T>(&mut self, xs: &mut [T]) {
        for i in (1..xs.len()).rev() {
            let j = self.below(i + 1);
            xs.swap(i, j);
        }
    }
}
