//! Seeded search driver: shards run indices over worker threads (each run is a pure
//! function of (VERIF_SEED, property, index)), aggregates coverage, minimises and
//! replays violations, applies the known-findings file, writes the evidence file.

use std::collections::{BTreeMap, HashSet};
use std::sync::atomic::{AtomicBool, AtomicU64, Ordering};
use std::sync::{Arc, Mutex};
use std::time::{Duration, Instant};

use crate::core::{Prop, RunOut, Stats, Tier, Violation};
use crate::json::{self, J};
use crate::rng::{run_seed, Rng};

pub const DEFAULT_SEED: u64 = 20_261_001;
/// a run that does not return within this many seconds is a hang (the interpreter is ~1000x slower)
const HANG_SECS: u64 = if cfg!(miri) { 7200 } else { 20 };

pub struct RunCfg {
    pub tier: Tier,
    pub seed: u64,
    pub runs: Option<u64>,
    pub threads: usize,
    pub budget_s: f64,
    pub verif_dir: String,
    pub write_evidence: bool,
    pub first: u64,
    pub conformance: Option<J>,
    /// also print the per-run trace hashes' combined digest (determinism self-test)
    pub quiet: bool,
    /// write a compact summary of this run (used for the small-window sub-run)
    pub summary_out: Option<String>,
    /// embed a previously written summary into the evidence
    pub include_summary: Option<String>,
    pub include_miri: Option<String>,
}

#[derive(Clone, Debug)]
pub struct Known {
    pub property: String,
    pub signature: String,
    pub what: String,
}

pub fn load_known(verif_dir: &str) -> Result<Vec<Known>, String> {
    let path = format!("{}/known_findings.json", verif_dir);
    let text = match std::fs::read_to_string(&path) {
        Ok(t) => t,
        Err(_) => return Ok(vec![]),
    };
    let j = json::parse(&text).map_err(|e| format!("{}: {}", path, e))?;
    let mut v = Vec::new();
    if let Some(a) = j.get("open").and_then(|x| x.arr()) {
        for e in a {
            v.push(Known {
                property: e.req_str("property")?.to_string(),
                signature: e.req_str("signature")?.to_string(),
                what: e.get("what").and_then(|x| x.str()).unwrap_or("").to_string(),
            });
        }
    }
    Ok(v)
}

pub struct Summary {
    pub evaluations: u64,
    pub nontrivial: u64,
    pub distinct_nontrivial: u64,
    pub stats: Stats,
    pub wall_s: f64,
    pub digest: u64,
    pub violations: Vec<(u64, J, Violation)>,
    pub known_hits: BTreeMap<String, u64>,
    pub samples: Vec<J>,
    pub replay_selfcheck: u64,
    pub harness_errors: Vec<String>,
    pub first: u64,
    pub last: u64,
}

struct Slot {
    started: Option<Instant>,
    index: u64,
    case: Option<Arc<J>>,
}

pub fn execute_range(prop: &dyn Prop, cfg: &RunCfg, known: &[Known]) -> Summary {
    let total = cfg.runs.unwrap_or_else(|| prop.runs(cfg.tier));
    let first = cfg.first;
    let next = AtomicU64::new(first);
    let end = first + total;
    let stop = AtomicBool::new(false);
    let done_count = AtomicU64::new(0);
    let shards: Vec<Mutex<HashSet<u64>>> = (0..64).map(|_| Mutex::new(HashSet::new())).collect();
    let violations: Mutex<Vec<(u64, J, Violation)>> = Mutex::new(Vec::new());
    let known_hits: Mutex<BTreeMap<String, u64>> = Mutex::new(BTreeMap::new());
    let samples: Mutex<Vec<(u64, J)>> = Mutex::new(Vec::new());
    let harness_errors: Mutex<Vec<String>> = Mutex::new(Vec::new());
    let merged: Mutex<Stats> = Mutex::new(Stats::default());
    let nontrivial = AtomicU64::new(0);
    let digest = AtomicU64::new(0);
    let selfchecks = AtomicU64::new(0);
    let slots: Vec<Mutex<Slot>> = (0..cfg.threads).map(|_| Mutex::new(Slot { started: None, index: 0, case: None })).collect();
    let t0 = Instant::now();
    let finished = AtomicBool::new(false);
    let prop_id = prop.id();
    let known_sigs: HashSet<String> = known.iter().filter(|k| k.property == prop_id).map(|k| k.signature.clone()).collect();

    std::thread::scope(|scope| {
        // watchdog: a run that does not return is a hang
        scope.spawn(|| {
            // "hang" = no heartbeat (no access to the simulated kernel, no call on a scripted stream)
            // for HANG_SECS, not "the run took long": a long history on a loaded machine is not a hang
            let mut last_beat: Vec<u64> = vec![0; slots.len()];
            let mut last_move: Vec<Instant> = vec![Instant::now(); slots.len()];
            while !finished.load(Ordering::Relaxed) {
                std::thread::sleep(Duration::from_millis(250));
                for (k, s) in slots.iter().enumerate() {
                    let g = s.lock().unwrap();
                    let b = simkernel::heartbeat::read(k);
                    if b != last_beat[k] {
                        last_beat[k] = b;
                        last_move[k] = Instant::now();
                    }
                    if let Some(t) = g.started {
                        let quiet_since = if last_move[k] > t { last_move[k] } else { t };
                        if quiet_since.elapsed() > Duration::from_secs(HANG_SECS) {
                            // no case yet: the hang is inside the generator (server-level generators
                            // drive the real server to draw adaptive steps); the replay regenerates
                            let gen_case = json::obj(vec![
                                ("engine", json::s("generator")),
                                ("seed", J::Int(cfg.seed as i128)),
                                ("index", J::Int(g.index as i128)),
                                ("thorough", J::Bool(cfg.tier == Tier::Thorough)),
                            ]);
                            let what = if g.case.is_some() { "run" } else { "generating run" };
                            let v = Violation::new(&format!("{}:hang", prop_id), 0, format!("{} {} made no progress for {} s", what, g.index, HANG_SECS));
                            let case: &J = match g.case.as_ref() {
                                Some(c) => c,
                                None => &gen_case,
                            };
                            let path = write_replay(&cfg.verif_dir, prop_id, cfg.seed, g.index, case, &v, None);
                            println!("VIOLATION property={} replay={}", prop_id, path);
                            println!("  class={} detail={}", v.class, v.detail);
                            std::process::exit(1);
                        }
                    }
                }
                if cfg.budget_s > 0.0 && t0.elapsed().as_secs_f64() > cfg.budget_s {
                    stop.store(true, Ordering::Relaxed);
                }
            }
        });
        let mut handles = Vec::new();
        for t in 0..cfg.threads {
            let next = &next;
            let stop = &stop;
            let shards = &shards;
            let violations = &violations;
            let known_hits = &known_hits;
            let samples = &samples;
            let merged = &merged;
            let nontrivial = &nontrivial;
            let digest = &digest;
            let selfchecks = &selfchecks;
            let harness_errors = &harness_errors;
            let slots = &slots;
            let known_sigs = &known_sigs;
            let done_count = &done_count;
            handles.push(scope.spawn(move || {
                simkernel::heartbeat::set_slot(t);
                let mut st = Stats::default();
                let mut local_digest = 0u64;
                loop {
                    if stop.load(Ordering::Relaxed) {
                        break;
                    }
                    let base = next.fetch_add(32, Ordering::Relaxed);
                    if base >= end {
                        break;
                    }
                    for index in base..(base + 32).min(end) {
                        if stop.load(Ordering::Relaxed) {
                            break;
                        }
                        let seed = run_seed(cfg.seed, prop_id, index);
                        let mut rng = Rng::new(seed);
                        {
                            let mut g = slots[t].lock().unwrap();
                            g.started = Some(Instant::now());
                            g.index = index;
                            g.case = None;
                        }
                        crate::crash::enter(t, index);
                        let case = Arc::new(prop.gen(&mut rng, cfg.tier, index));
                        {
                            let mut g = slots[t].lock().unwrap();
                            g.started = Some(Instant::now());
                            g.index = index;
                            g.case = Some(case.clone());
                        }
                        let out = prop.exec(&case, &mut st);
                        {
                            let mut g = slots[t].lock().unwrap();
                            g.started = None;
                            g.case = None;
                        }
                        crate::crash::leave(t);
                        done_count.fetch_add(1, Ordering::Relaxed);
                        let out: RunOut = match out {
                            Ok(o) => o,
                            Err(e) => {
                                harness_errors.lock().unwrap().push(format!("run {}: {}", index, e));
                                stop.store(true, Ordering::Relaxed);
                                break;
                            }
                        };
                        local_digest = local_digest.wrapping_add(out.trace_hash.wrapping_mul(index.wrapping_mul(2).wrapping_add(1)));
                        // record == replay(record): re-execute a sample from the serialised trace
                        if index % 997 == 0 {
                            let text = case.to_string();
                            match json::parse(&text) {
                                Ok(back) => {
                                    let mut st2 = Stats::default();
                                    match prop.exec(&back, &mut st2) {
                                        Ok(o2) => {
                                            if o2.trace_hash != out.trace_hash || o2.violation != out.violation {
                                                harness_errors.lock().unwrap().push(format!(
                                                    "run {}: replay of the recorded trace differs (hash {:x} vs {:x})",
                                                    index, out.trace_hash, o2.trace_hash
                                                ));
                                                stop.store(true, Ordering::Relaxed);
                                            }
                                        }
                                        Err(e) => {
                                            harness_errors.lock().unwrap().push(format!("run {}: replay failed: {}", index, e));
                                            stop.store(true, Ordering::Relaxed);
                                        }
                                    }
                                    selfchecks.fetch_add(1, Ordering::Relaxed);
                                }
                                Err(e) => {
                                    harness_errors.lock().unwrap().push(format!("run {}: recorded trace does not parse: {}", index, e));
                                    stop.store(true, Ordering::Relaxed);
                                }
                            }
                        }
                        if out.nontrivial {
                            nontrivial.fetch_add(1, Ordering::Relaxed);
                            let sh = (out.sig >> 58) as usize & 63;
                            shards[sh].lock().unwrap().insert(out.sig);
                            if index < first + 256 {
                                let mut s = samples.lock().unwrap();
                                if s.len() < 64 {
                                    s.push((index, (*case).clone()));
                                }
                            }
                        }
                        if let Some(v) = out.violation {
                            if known_sigs.contains(&v.class) {
                                *known_hits.lock().unwrap().entry(v.class.clone()).or_insert(0) += 1;
                            } else {
                                violations.lock().unwrap().push((index, (*case).clone(), v));
                                stop.store(true, Ordering::Relaxed);
                            }
                        }
                    }
                }
                merged.lock().unwrap().merge(&st);
                digest.fetch_add(local_digest, Ordering::Relaxed);
            }));
        }
        for h in handles {
            if let Err(p) = h.join() {
                harness_errors.lock().unwrap().push(format!(
                    "a worker thread panicked outside catch_unwind (harness bug or panic in an unguarded library call): {}",
                    crate::obs::panic_msg(p)
                ));
            }
        }
        finished.store(true, Ordering::Relaxed);
    });

    let mut viol = violations.into_inner().unwrap();
    viol.sort_by_key(|v| v.0);
    let mut smp = samples.into_inner().unwrap();
    smp.sort_by_key(|s| s.0);
    let distinct: u64 = shards.iter().map(|s| s.lock().unwrap().len() as u64).sum();
    let evaluations = done_count.load(Ordering::Relaxed);
    Summary {
        evaluations,
        nontrivial: nontrivial.load(Ordering::Relaxed),
        distinct_nontrivial: distinct,
        stats: merged.into_inner().unwrap(),
        wall_s: t0.elapsed().as_secs_f64(),
        digest: digest.load(Ordering::Relaxed),
        violations: viol,
        known_hits: known_hits.into_inner().unwrap(),
        samples: {
            // the three smallest among the first non-trivial cases (readable evidence)
            let mut sized: Vec<(usize, J)> = smp.into_iter().map(|s| (s.1.to_string().len(), s.1)).collect();
            sized.sort_by_key(|x| x.0);
            sized.into_iter().take(3).map(|x| x.1).collect()
        },
        replay_selfcheck: selfchecks.load(Ordering::Relaxed),
        harness_errors: harness_errors.into_inner().unwrap(),
        first,
        last: first + total - 1,
    }
}

/// Watchdog for the sequential phases (regression inputs, minimisation): what to report if the
/// execution that is running right now never returns.
pub enum SeqJob {
    /// replaying a stored trace
    Regression { pid: String, file: String },
    /// executing a shrink candidate: the best case so far still reproduces `v`
    Minimise { pid: String, verif_dir: String, seed: u64, index: u64, best: J, v: Violation, original: J },
}

pub static SEQ_WATCH: Mutex<Option<(Instant, SeqJob)>> = Mutex::new(None);

pub fn seq_watch_set(job: Option<SeqJob>) {
    *SEQ_WATCH.lock().unwrap() = job.map(|j| (Instant::now(), j));
}

pub fn spawn_seq_watchdog() {
    let main_slot = simkernel::heartbeat::slot();
    std::thread::spawn(move || {
        let mut last_beat = 0u64;
        let mut last_move = Instant::now();
        loop {
        std::thread::sleep(Duration::from_millis(500));
        let b = simkernel::heartbeat::read(main_slot);
        if b != last_beat {
            last_beat = b;
            last_move = Instant::now();
        }
        let g = SEQ_WATCH.lock().unwrap();
        if let Some((t, job)) = g.as_ref() {
            let quiet_since = if last_move > *t { last_move } else { *t };
            if quiet_since.elapsed() > Duration::from_secs(HANG_SECS) {
                match job {
                    SeqJob::Regression { pid, file } => {
                        println!("VIOLATION property={} replay={}", pid, file);
                        println!("  class={}:hang detail=replaying this regression input made no progress for {} s", pid, HANG_SECS);
                    }
                    SeqJob::Minimise { pid, verif_dir, seed, index, best, v, original } => {
                        // a shrink candidate hangs: report the violation with the smallest case found so far
                        let path = write_replay(verif_dir, pid, *seed, *index, best, v, Some(original));
                        println!("VIOLATION property={} replay={}", pid, path);
                        println!("  class={} step={} run_index={} (minimisation stopped: a candidate made no progress for {} s)", v.class, v.step, index, HANG_SECS);
                        println!("  detail={}", v.detail);
                    }
                }
                std::process::exit(1);
            }
        }
        }
    });
}

pub struct MinCtx<'a> {
    pub pid: &'a str,
    pub verif_dir: &'a str,
    pub seed: u64,
    pub index: u64,
}

pub fn minimise(prop: &dyn Prop, case: &J, class: &str, budget: usize) -> (J, Violation, usize) {
    minimise_watched(prop, case, class, budget, None)
}

pub fn minimise_watched(prop: &dyn Prop, case: &J, class: &str, mut budget: usize, ctx: Option<&MinCtx>) -> (J, Violation, usize) {
    let mut cur = case.clone();
    let mut st = Stats::default();
    let mut curv = match prop.exec(&cur, &mut st) {
        Ok(RunOut { violation: Some(v), .. }) => v,
        _ => Violation::new(class, 0, "violation did not reproduce before minimisation".into()),
    };
    let mut used = 0;
    loop {
        let mut progress = false;
        for cand in prop.shrink(&cur) {
            if budget == 0 {
                break;
            }
            budget -= 1;
            used += 1;
            let mut st = Stats::default();
            if let Some(c) = ctx {
                seq_watch_set(Some(SeqJob::Minimise {
                    pid: c.pid.to_string(),
                    verif_dir: c.verif_dir.to_string(),
                    seed: c.seed,
                    index: c.index,
                    best: cur.clone(),
                    v: curv.clone(),
                    original: case.clone(),
                }));
            }
            let r = prop.exec(&cand, &mut st);
            if ctx.is_some() {
                seq_watch_set(None);
            }
            if let Ok(RunOut { violation: Some(v), .. }) = r {
                if v.class == class {
                    cur = cand;
                    curv = v;
                    progress = true;
                    break;
                }
            }
        }
        if !progress || budget == 0 {
            break;
        }
    }
    (cur, curv, used)
}

pub fn write_replay(verif_dir: &str, prop: &str, seed: u64, index: u64, case: &J, v: &Violation, unminimised: Option<&J>) -> String {
    let dir = format!("{}/replays", verif_dir);
    let _ = std::fs::create_dir_all(&dir);
    let path = format!("{}/{}-{}-{}.json", dir, prop, seed, index);
    let mut pairs = vec![
        ("property", json::s(prop)),
        ("seed", J::Int(seed as i128)),
        ("run_index", J::Int(index as i128)),
        ("case", case.clone()),
        ("violation", v.to_json()),
        ("signature", json::s(&v.class)),
        ("window", json::u(crate::model::WINDOW)),
    ];
    if let Some(u) = unminimised {
        pairs.push(("unminimised_case", u.clone()));
    }
    let j = json::obj(pairs);
    let _ = std::fs::write(&path, j.to_string());
    path
}

/// Re-execute a replay file. Returns the violation observed (if any).
pub fn replay_file(prop_lookup: &dyn Fn(&str) -> Option<Box<dyn Prop>>, path: &str) -> Result<(String, Option<Violation>, Option<String>), String> {
    let text = std::fs::read_to_string(path).map_err(|e| format!("{}: {}", path, e))?;
    let j = json::parse(&text)?;
    let pid = j.req_str("property")?.to_string();
    let prop = prop_lookup(&pid).ok_or_else(|| format!("unknown property {}", pid))?;
    let case = j.req("case")?;
    let expected = j.get("signature").and_then(|x| x.str()).map(|x| x.to_string());
    let mut st = Stats::default();
    let regenerated;
    let case = if case.get("engine").and_then(|x| x.str()) == Some("generator") {
        // recorded when the generator itself did not return: regenerate from (seed, index)
        let seed = case.get("seed").and_then(|x| x.int()).ok_or("generator case: seed")? as u64;
        let index = case.get("index").and_then(|x| x.int()).ok_or("generator case: index")? as u64;
        let tier = if case.get("thorough").and_then(|x| x.bool()).unwrap_or(false) { Tier::Thorough } else { Tier::Quick };
        let mut rng = Rng::new(run_seed(seed, &pid, index));
        regenerated = prop.gen(&mut rng, tier, index);
        &regenerated
    } else {
        case
    };
    let out = prop.exec(case, &mut st)?;
    Ok((pid, out.violation, expected))
}

pub fn fmap(m: &BTreeMap<&'static str, u64>) -> J {
    let mut o = BTreeMap::new();
    for (k, v) in m {
        o.insert(k.to_string(), J::Int(*v as i128));
    }
    J::Obj(o)
}

/// families added to a property's runs after its rule text was written (DESIGN.md deviations 20-27)
fn rule_additions(pid: &str) -> &'static str {
    match pid {
        "C01" => "; ADDED: owner actions between reads vary per schedule (write pending output, pop late, pop one request per read, answer with short writes, lose the output side through clear_write_buffer() or a refused write); one stream in 150 is a marathon of 40..400 pipelined requests",
        "C02" | "C11" | "C12" | "C13" => "; ADDED: one stream in 150 is a marathon of 40..400 pipelined requests",
        "C03" => "; ADDED: clear_write_buffer() and set_payload_max_size() among the operations",
        "C04" => "; ADDED: in a quarter of the connection-level runs the owner calls set_payload_max_size() at 1..2 arbitrary stream offsets (every schedule is cut there); the model applies the limit in force when the header block completes; limits up to usize::MAX",
        "C05" => "; ADDED: builder programs include set_content_length(None|0|n|negative|MIN|MAX) (byte equality always; reader and presence rule only where the explicit value agrees with the body), Server strings up to 5000 bytes, Allow lists up to 80 entries",
        "C06" => "; ADDED: a third of the runs interleave try_read calls (EOF, EAGAIN, EINTR, ECONNRESET, data that queues no output) - a read must leave the output side alone; explicit lengths and long heads as in C05; one run in 40 starts with a burst of 20..70 queued responses",
        "C10" => "; ADDED: one run in 8000 is a turnstile history from the lean engine (250..66000 short-lived clients one after another on one server: exact answer, release after each, no failure); set-up variants, marathon clients, churn, fork step, 204 / 100 responses with a body, empty batches, spurious readiness notifications, descriptor numbers from 0 / 300 / 70000; step oracles pending-client-ignored and output-held-back",
        "C07" | "C18" => "; ADDED: set-up variants (kill switch before/after start_server, created before the server, listener handed over with new_from_fd, daemon-style descriptor numbers from 0), marathon clients (20..60 pipelined requests, 300..900 steps), churn (up to 60 short-lived clients), a fork step (child inherits the open descriptors), application responses with status 204 / 100 and a body and with the other builder calls, empty batches, start_server twice, kill switch replaced, first connection on descriptor 0, descriptor numbers from 300 / 70000, (C18) a server that is never started; step oracle pending-client-ignored",
        "C08" | "C09" => "; ADDED: set-up variants (kill switch before/after start_server, created before the server, listener handed over with new_from_fd, daemon-style descriptor numbers from 0), marathon clients, churn, a fork step (C09), 204 / 100 responses with a body and the other builder calls, empty batches, start_server twice, kill switch replaced, first connection on descriptor 0, descriptor numbers from 300 / 70000, step oracle pending-client-ignored, and one run in 6000 from the lean flood engine: one client pipelines 250..70000 minimal requests while the application answers in bursts or only at the end (respond or one enqueue_responses batch); oracles there: requests()/respond() never fail, every request yielded once in order, exact output stream, no lost wake-up, quiescence",
        _ => "",
    }
}

/// families added after rounds 12 and 13 (DESIGN.md deviations 32, 33)
fn rule_additions_2(pid: &str) -> &'static str {
    match pid {
        "C01" => "; every clock the code can read is simulated (interposed clock_gettime): each schedule has its own pace (0 / 1 ms / 13 s / 65 s / 2 h of simulated time per stream call); volleys of 17..120 minimal requests; header blocks with a distinct name per line",
        "C02" => "; volleys of 17..120 minimal requests; header blocks of 33..300 lines with a distinct custom name per line",
        "C05" => "; bodies of 1..3 MiB (one run in 2500); every third multi-call response is also written once half-way through its program, then changed and written again",
        "C06" => "; write sizes aimed at the end of the response head (exactly, one byte less / more) and at the status line; bodies of 1..3 MiB through writes of 10..900 KiB (one run in 2500); other errnos (ENOBUFS, ENOMEM, EIO, ENOSPC, ...)",
        "C14" => "; one run in 3000 is a 1..2 MiB request on a connection whose limit was raised, compared with the one-shot parser without maximum; header blocks of 66000 lines",
        "C10" => "; refusal storms from the lean engine (one run in 6000: a full server and 260..66000 surplus clients, 1..40 at a time; then time passes, one more refusal, a resident served, a released slot re-used); the additions listed for C07",
        "C07" | "C08" | "C09" | "C18" | "C04" | "C11" | "C13" => "; simulated time: sleep steps (1 s .. 10^6 s), wall-clock steps back and forward, a pace of 1 ms .. 2.5 s per system call (a quarter of the histories); descriptor numbers 2..4096 apart (one history in 12); one application response in 12 sized against the free space of its client's socket buffer; raw fcntl / ioctl / recv / send / poll / getsockopt by descriptor number act on the simulated descriptor; hostile clients may become spinning senders (socket full again after every server receive) and may pass descriptors (real pipe ends) whose closure is checked once the client was released",
        _ => "",
    }
}

/// Run a property check end to end; returns the process exit code.
pub fn run_check(prop: &dyn Prop, cfg: &RunCfg) -> i32 {
    let known = match load_known(&cfg.verif_dir) {
        Ok(k) => k,
        Err(e) => {
            eprintln!("HARNESS-ERROR: {}", e);
            return 2;
        }
    };
    let pid = prop.id();
    println!("VERIF_SEED={} property={} tier={:?} threads={}", cfg.seed, pid, cfg.tier, cfg.threads);
    // regression inputs: the minimised traces of defects that were found and repaired are replayed
    // first, so a defect that returns is reported with exactly the trace that exposed it
    let mut regressions = 0;
    let mut regression_known_hits: BTreeMap<String, u64> = BTreeMap::new();
    crate::crash::install();
    spawn_seq_watchdog();
    let mut files: Vec<std::path::PathBuf> = Vec::new();
    for sub in ["findings", "corpus"] {
        if let Ok(rd) = std::fs::read_dir(format!("{}/{}", cfg.verif_dir, sub)) {
            files.extend(rd.filter_map(|e| e.ok()).map(|e| e.path()).filter(|p| p.to_string_lossy().ends_with(".replay.json")));
        }
    }
    files.sort();
    {
        for f in files {
            let text = match std::fs::read_to_string(&f) {
                Ok(t) => t,
                Err(_) => continue,
            };
            let j = match json::parse(&text) {
                Ok(j) => j,
                Err(_) => continue,
            };
            if j.get("property").and_then(|x| x.str()) != Some(pid) {
                continue;
            }
            if j.get("window").and_then(|x| x.usize()).map(|w| w != crate::model::WINDOW).unwrap_or(false) {
                continue;
            }
            if let Some(case) = j.get("case") {
                let mut st = Stats::default();
                regressions += 1;
                seq_watch_set(Some(SeqJob::Regression { pid: pid.to_string(), file: f.display().to_string() }));
                let r = prop.exec(case, &mut st);
                seq_watch_set(None);
                if let Ok(RunOut { violation: Some(v), .. }) = r {
                    if known.iter().any(|k| k.property == pid && k.signature == v.class) {
                        *regression_known_hits.entry(v.class.clone()).or_insert(0u64) += 1;
                    } else {
                        println!("VIOLATION property={} replay={}", pid, f.display());
                        println!("  class={} step={} (regression input: a repaired defect is back)", v.class, v.step);
                        println!("  detail={}", v.detail);
                        return 1;
                    }
                }
            }
        }
    }
    let sum = execute_range(prop, cfg, &known);
    if !sum.harness_errors.is_empty() {
        for e in &sum.harness_errors {
            eprintln!("HARNESS-ERROR: {}", e);
        }
        return 2;
    }
    let mut exit = 0;
    let mut viol_count = 0;
    for k in known.iter().filter(|k| k.property == pid) {
        let n = sum.known_hits.get(&k.signature).cloned().unwrap_or(0) + regression_known_hits.get(&k.signature).cloned().unwrap_or(0);
        println!("KNOWN-FINDING: property={} signature={} hits={} {}", pid, k.signature, n, k.what);
    }
    if let Some((index, case, v)) = sum.violations.first() {
        viol_count = sum.violations.len();
        let ctx = MinCtx { pid, verif_dir: &cfg.verif_dir, seed: cfg.seed, index: *index };
        let (min_case, min_v, used) = minimise_watched(prop, case, &v.class, 2000, Some(&ctx));
        let path = write_replay(&cfg.verif_dir, pid, cfg.seed, *index, &min_case, &min_v, Some(case));
        // replaying the minimised file must reproduce the violation exactly
        let mut st = Stats::default();
        let text = std::fs::read_to_string(&path).unwrap_or_default();
        let again = json::parse(&text).ok().and_then(|j| j.get("case").cloned()).and_then(|c| prop.exec(&c, &mut st).ok());
        match again {
            Some(RunOut { violation: Some(v2), .. }) if v2.class == min_v.class && v2.step == min_v.step => {
                println!("VIOLATION property={} replay={}", pid, path);
                println!("  class={} step={} run_index={} minimisation_replays={}", min_v.class, min_v.step, index, used);
                println!("  detail={}", min_v.detail);
                exit = 1;
            }
            _ => {
                eprintln!("HARNESS-ERROR: minimised replay {} does not reproduce the violation {:?}", path, min_v);
                return 2;
            }
        }
    }
    if cfg.write_evidence {
        let (real, stub) = prop.components();
        let runs_per_hour = if sum.wall_s > 0.0 { sum.evaluations as f64 / sum.wall_s * 3600.0 } else { 0.0 };
        let mut cov = vec![
            ("evaluations", J::Int(sum.evaluations as i128)),
            ("distinct_nontrivial", J::Int(sum.distinct_nontrivial as i128)),
            ("nontrivial_runs", J::Int(sum.nontrivial as i128)),
            ("rule", json::s(&format!("{}{}{}", prop.rule(), rule_additions(pid), rule_additions_2(pid)))),
            ("samples", J::Arr(if sum.samples.is_empty() { vec![json::s("(no non-trivial run among the first 256)")] } else { sum.samples.clone() })),
            ("runs_per_hour", J::Float(runs_per_hour.round())),
            ("simulated_time_logical_steps", J::Int(sum.stats.steps as i128)),
            ("library_calls", J::Int(sum.stats.lib_calls as i128)),
            ("fault_counts", fmap(&sum.stats.faults)),
            ("probe_counts", fmap(&sum.stats.probes)),
            ("distinct_abstract_states", J::Int(sum.stats.states.len() as i128)),
            (
                "abstract_state_definition",
                json::s("computed from observables at the seam only (no hook): connection level = (grammar element the read position falls in, receive-window fill before the read bucketed {0,1,2..W-3,W-2,W-1}, bytes delivered bucketed, result class, requests popped capped at 2, output pending); server level = multiset over connections of (accept state, client open/half-closed/closed, unanswered requests capped at 2, owed output, unread input) plus (epoll readable, backlog non-empty, kill signalled)"),
            ),
            ("skipped_unspecified_by_properties", J::Int(sum.stats.skipped_unspecified as i128)),
            (
                "seeds",
                json::obj(vec![
                    ("base", J::Int(cfg.seed as i128)),
                    ("first_run_index", J::Int(sum.first as i128)),
                    ("last_run_index", J::Int(sum.last as i128)),
                    ("derivation", json::s("run_seed = splitmix64(VERIF_SEED ^ fnv1a(property id) ^ index*phi); xoshiro256** from it")),
                ]),
            ),
            (
                "components",
                json::obj(vec![
                    ("real", J::Arr(real.iter().map(|x| json::s(x)).collect())),
                    ("stub", J::Arr(stub.iter().map(|x| json::s(x)).collect())),
                ]),
            ),
            ("replay_selfcheck", J::Int(sum.replay_selfcheck as i128)),
            ("regression_inputs_replayed", J::Int(regressions as i128)),
            ("trace_digest", json::s(&format!("{:016x}", sum.digest))),
            ("known_finding_hits", J::Obj(sum.known_hits.iter().map(|(k, v)| (k.clone(), J::Int(*v as i128))).collect())),
            ("exhaustive", J::Bool(false)),
        ];
        if let Some(c) = &cfg.conformance {
            cov.push(("conformance", c.clone()));
        }
        cov.push(("receive_window_bytes", json::u(crate::model::WINDOW)));
        if let Some(f) = &cfg.include_miri {
            if let Ok(t) = std::fs::read_to_string(f) {
                if let Ok(j) = json::parse(&t) {
                    cov.push(("miri_subrun", j));
                }
            }
        }
        if let Some(f) = &cfg.include_summary {
            if let Ok(t) = std::fs::read_to_string(f) {
                if let Ok(j) = json::parse(&t) {
                    cov.push(("small_window_build", j));
                }
            }
        }
        let ev = json::obj(vec![
            ("property_id", json::s(pid)),
            ("tier", json::s(if cfg.tier == Tier::Quick { "quick" } else { "thorough" })),
            ("seed", J::Int(cfg.seed as i128)),
            ("level", json::s("exploration")),
            ("coverage", json::obj(cov)),
            (
                "assumptions",
                J::Arr(vec![
                    json::s("sampling, not enumeration: a clean batch is evidence, not proof"),
                    json::s("reference model / serialiser / response reader in /verif/sim/harness/src/model.rs are trusted"),
                    json::s("server-level results are relative to the simkernel stub, validated by the conformance table against the real kernel"),
                ]),
            ),
            ("wall_s", J::Float((sum.wall_s * 1000.0).round() / 1000.0)),
            ("violations", J::Int(viol_count as i128)),
        ]);
        let dir = format!("{}/evidence", cfg.verif_dir);
        let _ = std::fs::create_dir_all(&dir);
        if let Err(e) = std::fs::write(format!("{}/{}.json", dir, pid), ev.to_string()) {
            eprintln!("HARNESS-ERROR: cannot write evidence: {}", e);
            return 2;
        }
    }
    if let Some(f) = &cfg.summary_out {
        let j = json::obj(vec![
            ("receive_window_bytes", json::u(crate::model::WINDOW)),
            ("evaluations", J::Int(sum.evaluations as i128)),
            ("nontrivial_runs", J::Int(sum.nontrivial as i128)),
            ("distinct_nontrivial", J::Int(sum.distinct_nontrivial as i128)),
            ("violations", J::Int(viol_count as i128)),
            ("probe_counts", fmap(&sum.stats.probes)),
            ("fault_counts", fmap(&sum.stats.faults)),
            ("wall_s", J::Float((sum.wall_s * 1000.0).round() / 1000.0)),
            (
                "note",
                json::s(if cfg!(miri) {
                    "same check executed under Miri (undefined-behaviour detection), single-threaded, far fewer runs"
                } else {
                    "same check, same seeds, crate built with --cfg micro_http_verif=\"small\" (64-byte receive window, hook H3); the reference model is parameterised by the window"
                }),
            ),
        ]);
        let _ = std::fs::write(f, j.to_string());
    }
    if !cfg.quiet {
        println!(
            "property={} runs={} nontrivial={} distinct={} wall_s={:.1} digest={:016x} violations={} known_hits={}",
            pid,
            sum.evaluations,
            sum.nontrivial,
            sum.distinct_nontrivial,
            sum.wall_s,
            sum.digest,
            viol_count,
            sum.known_hits.values().sum::<u64>()
        );
    }
    exit
}
