//! Scripted in-memory stream for engines A and B: implements Read + Write + ScmSocket
//! (with `recv_with_fds` overridden). The harness decides what every single receive and
//! write call does.

use std::cell::RefCell;
use std::io;
use std::os::unix::io::RawFd;
use std::rc::Rc;

use vmm_sys_util::errno;
use vmm_sys_util::sock_ctrl_msg::ScmSocket;

#[derive(Clone, Debug, PartialEq, Eq)]
pub enum RdOp {
    /// deliver up to n bytes of the remaining input (bounded by the space offered),
    /// plus `fds` descriptors
    Data(usize, u16),
    Eagain,
    Eintr,
    Reset,
    /// 0 bytes, possibly with descriptors
    Eof(u16),
}

#[derive(Clone, Debug, PartialEq, Eq)]
pub enum WrOp {
    /// accept up to n bytes
    Accept(usize),
    Eintr,
    Eagain,
    Epipe,
    Reset,
    Zero,
    /// any other errno, reported as a raw OS error (ENOBUFS, ENOMEM, EIO, ...): not an interrupt,
    /// so the output is lost and the connection reports closed
    Errno(i32),
}

pub const LIVELOCK_CALLS: u64 = 200_000;

#[derive(Default)]
pub struct Shared {
    pub input: Vec<u8>,
    pub pos: usize,
    pub next_rd: Option<RdOp>,
    pub next_wr: Option<WrOp>,
    pub recv_calls: u64,
    pub write_calls: u64,
    pub accepted: Vec<u8>,
    /// space offered by the last receive call
    pub last_offer: usize,
    /// bytes delivered by the last receive call
    pub last_given: usize,
    /// descriptors to hand out (real descriptors, provided by the harness)
    pub fd_pool: Vec<RawFd>,
    /// stream calls made since the harness last scripted an operation: a library call that keeps
    /// calling the stream (a retry loop) is a livelock, declared after LIVELOCK_CALLS calls
    pub calls_in_op: u64,
    /// descriptors actually handed out, in order
    pub fds_given: Vec<RawFd>,
    pub last_fds_given: usize,
    /// length of the buffer offered to the last write call
    pub last_write_len: usize,
    pub last_write_accepted: usize,
    /// fds the library offered room for
    pub last_fd_room: usize,
    /// volume mode: accepted bytes are not stored but compared on the fly with this repeating
    /// expectation (gigabytes through one connection)
    pub verify: Option<Rc<Vec<u8>>>,
    pub verify_pos: usize,
    pub verify_total: u64,
    /// total offset of the first byte that differed
    pub verify_bad: Option<u64>,
}

#[derive(Clone)]
pub struct SimStream {
    pub sh: Rc<RefCell<Shared>>,
}

impl SimStream {
    pub fn new(input: Vec<u8>) -> (SimStream, Rc<RefCell<Shared>>) {
        let sh = Rc::new(RefCell::new(Shared { input, ..Default::default() }));
        (SimStream { sh: sh.clone() }, sh)
    }
}

impl io::Read for SimStream {
    fn read(&mut self, _buf: &mut [u8]) -> io::Result<usize> {
        // HttpConnection never uses Read::read; count it as a receive so that the
        // "one receive per call" oracle would notice if it started to.
        simkernel::heartbeat::beat();
        simkernel::rawsys::clock::stream_call();
        let mut s = self.sh.borrow_mut();
        s.calls_in_op += 1;
        if s.calls_in_op > LIVELOCK_CALLS {
            drop(s);
            panic!("livelock: more than {} stream calls inside one library call", LIVELOCK_CALLS);
        }
        s.recv_calls += 1;
        Err(io::Error::from_raw_os_error(libc::EAGAIN))
    }
}

impl io::Write for SimStream {
    fn write(&mut self, buf: &[u8]) -> io::Result<usize> {
        simkernel::heartbeat::beat();
        simkernel::rawsys::clock::stream_call();
        let mut s = self.sh.borrow_mut();
        s.calls_in_op += 1;
        if s.calls_in_op > LIVELOCK_CALLS {
            drop(s);
            panic!("livelock: more than {} stream calls inside one library call", LIVELOCK_CALLS);
        }
        s.write_calls += 1;
        s.last_write_len = buf.len();
        s.last_write_accepted = 0;
        let op = s.next_wr.take().unwrap_or(WrOp::Eagain);
        match op {
            WrOp::Accept(n) if s.verify.is_some() => {
                let k = n.min(buf.len());
                let exp = s.verify.clone().unwrap();
                let mut done = 0;
                while done < k {
                    let pos = s.verify_pos;
                    let m = (k - done).min(exp.len() - pos);
                    if s.verify_bad.is_none() && buf[done..done + m] != exp[pos..pos + m] {
                        let d = buf[done..done + m].iter().zip(exp[pos..pos + m].iter()).position(|(a, b)| a != b).unwrap_or(0);
                        s.verify_bad = Some(s.verify_total + d as u64);
                    }
                    s.verify_pos = (pos + m) % exp.len();
                    s.verify_total += m as u64;
                    done += m;
                }
                s.last_write_accepted = k;
                Ok(k)
            }
            WrOp::Accept(n) => {
                let k = n.min(buf.len());
                s.accepted.extend_from_slice(&buf[..k]);
                s.last_write_accepted = k;
                Ok(k)
            }
            WrOp::Zero => Ok(0),
            // a stream is any `Write`: every other failing call reports the error by KIND only, without
            // an OS error code (what a wrapper or an in-memory stream does); the caller must go by kind
            WrOp::Eintr | WrOp::Eagain | WrOp::Epipe | WrOp::Reset if s.write_calls % 2 == 0 => Err(io::Error::from(match op {
                WrOp::Eintr => io::ErrorKind::Interrupted,
                WrOp::Eagain => io::ErrorKind::WouldBlock,
                WrOp::Epipe => io::ErrorKind::BrokenPipe,
                _ => io::ErrorKind::ConnectionReset,
            })),
            WrOp::Eintr => Err(io::Error::from_raw_os_error(libc::EINTR)),
            WrOp::Eagain => Err(io::Error::from_raw_os_error(libc::EAGAIN)),
            WrOp::Epipe => Err(io::Error::from_raw_os_error(libc::EPIPE)),
            WrOp::Reset => Err(io::Error::from_raw_os_error(libc::ECONNRESET)),
            WrOp::Errno(e) => Err(io::Error::from_raw_os_error(e)),
        }
    }
    fn flush(&mut self) -> io::Result<()> {
        Ok(())
    }
}

impl ScmSocket for SimStream {
    fn socket_fd(&self) -> RawFd {
        -1
    }

    unsafe fn recv_with_fds(
        &self,
        iovecs: &mut [libc::iovec],
        fds: &mut [RawFd],
    ) -> errno::Result<(usize, usize)> {
        simkernel::heartbeat::beat();
        simkernel::rawsys::clock::stream_call();
        let mut s = self.sh.borrow_mut();
        s.calls_in_op += 1;
        if s.calls_in_op > LIVELOCK_CALLS {
            drop(s);
            panic!("livelock: more than {} stream calls inside one library call", LIVELOCK_CALLS);
        }
        s.recv_calls += 1;
        s.last_given = 0;
        s.last_fds_given = 0;
        s.last_fd_room = fds.len();
        let offered = if iovecs.is_empty() { 0 } else { iovecs[0].iov_len };
        s.last_offer = offered;
        let op = s.next_rd.take().unwrap_or(RdOp::Eagain);
        let give_fds = |s: &mut Shared, want: u16, fds: &mut [RawFd]| -> usize {
            let mut k = 0;
            while k < want as usize && k < fds.len() && !s.fd_pool.is_empty() {
                let fd = s.fd_pool.remove(0);
                fds[k] = fd;
                s.fds_given.push(fd);
                k += 1;
            }
            s.last_fds_given = k;
            k
        };
        match op {
            RdOp::Data(n, nf) => {
                let remaining = s.input.len() - s.pos;
                let k = n.min(offered).min(remaining);
                if k == 0 {
                    return Err(errno::Error::new(libc::EAGAIN));
                }
                // SAFETY: the caller guarantees the iovec describes writable memory.
                let buf = std::slice::from_raw_parts_mut(iovecs[0].iov_base as *mut u8, offered);
                let p = s.pos;
                buf[..k].copy_from_slice(&s.input[p..p + k]);
                s.pos += k;
                s.last_given = k;
                let f = give_fds(&mut s, nf, fds);
                Ok((k, f))
            }
            RdOp::Eof(nf) => {
                let f = give_fds(&mut s, nf, fds);
                Ok((0, f))
            }
            RdOp::Eagain => Err(errno::Error::new(libc::EAGAIN)),
            RdOp::Eintr => Err(errno::Error::new(libc::EINTR)),
            RdOp::Reset => Err(errno::Error::new(libc::ECONNRESET)),
        }
    }
}
