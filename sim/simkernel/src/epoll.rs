//! Drop-in replacement for `vmm_sys_util::epoll::Epoll` (the event types are re-exported).

use std::io;
use std::os::unix::io::{AsRawFd, RawFd};

pub use vmm_sys_util::epoll::{ControlOperation, EpollEvent, EventSet};

use crate::world::{self, with};

pub struct Epoll {
    fd: RawFd,
    epoch: u64,
}

impl Epoll {
    pub fn new() -> io::Result<Self> {
        let fd = with(|w| w.epoll_create());
        Ok(Epoll { fd, epoch: world::epoch() })
    }

    pub fn ctl(&self, operation: ControlOperation, fd: RawFd, event: EpollEvent) -> io::Result<()> {
        if self.epoch != world::epoch() {
            return Err(io::Error::from_raw_os_error(libc::EBADF));
        }
        let op = match operation {
            ControlOperation::Add => 1,
            ControlOperation::Delete => 2,
            ControlOperation::Modify => 3,
        };
        with(|w| w.epoll_ctl(self.fd, op, fd, event.events(), event.data()))
            .map_err(io::Error::from_raw_os_error)
    }

    pub fn wait(&self, timeout: i32, events: &mut [EpollEvent]) -> io::Result<usize> {
        if self.epoch != world::epoch() {
            return Err(io::Error::from_raw_os_error(libc::EBADF));
        }
        match with(|w| w.epoll_wait(self.fd, timeout, events.len())) {
            Ok(Some(v)) => {
                for (i, (m, d)) in v.iter().enumerate() {
                    events[i] = EpollEvent::new(EventSet::from_bits_truncate(*m), *d);
                }
                Ok(v.len())
            }
            Ok(None) => crate::block("epoll_wait", self.fd),
            Err(e) => Err(io::Error::from_raw_os_error(e)),
        }
    }
}

impl AsRawFd for Epoll {
    fn as_raw_fd(&self) -> RawFd {
        self.fd
    }
}

impl Drop for Epoll {
    fn drop(&mut self) {
        if self.epoch == world::epoch() {
            with(|w| w.close(self.fd));
        }
    }
}
