//! Drop-in replacement for `vmm_sys_util::eventfd::EventFd`.

use std::io;
use std::os::unix::io::{AsRawFd, RawFd};

use crate::world::{self, with};

pub const EFD_NONBLOCK: i32 = libc::EFD_NONBLOCK;

pub struct EventFd {
    fd: RawFd,
    epoch: u64,
}

impl EventFd {
    pub fn new(flag: i32) -> io::Result<EventFd> {
        let fd = with(|w| w.eventfd_create(flag & libc::EFD_NONBLOCK != 0));
        Ok(EventFd { fd, epoch: world::epoch() })
    }

    pub fn write(&self, v: u64) -> io::Result<()> {
        if self.epoch != world::epoch() {
            return Err(io::Error::from_raw_os_error(libc::EBADF));
        }
        with(|w| w.eventfd_write(self.fd, v)).map_err(io::Error::from_raw_os_error)
    }

    pub fn read(&self) -> io::Result<u64> {
        if self.epoch != world::epoch() {
            return Err(io::Error::from_raw_os_error(libc::EBADF));
        }
        match with(|w| w.eventfd_read(self.fd)) {
            Ok(Some(v)) => Ok(v),
            Ok(None) => crate::block("eventfd_read", self.fd),
            Err(e) => Err(io::Error::from_raw_os_error(e)),
        }
    }

    pub fn try_clone(&self) -> io::Result<EventFd> {
        if self.epoch != world::epoch() {
            return Err(io::Error::from_raw_os_error(libc::EBADF));
        }
        let fd = with(|w| w.eventfd_dup(self.fd)).map_err(io::Error::from_raw_os_error)?;
        Ok(EventFd { fd, epoch: self.epoch })
    }
}

impl AsRawFd for EventFd {
    fn as_raw_fd(&self) -> RawFd {
        self.fd
    }
}

impl Drop for EventFd {
    fn drop(&mut self) {
        if self.epoch == world::epoch() {
            with(|w| w.close(self.fd));
        }
    }
}
