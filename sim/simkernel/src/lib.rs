//! `simkernel`: a deterministic, single-threaded stand-in for the part of Linux that
//! micro-http's `HttpServer` talks to (AF_UNIX stream sockets, a listener, epoll,
//! eventfd). Hook H1 in /repo/src/server.rs imports these types instead of the std /
//! vmm-sys-util ones when built with `--cfg micro_http_verif`.

pub mod epoll;
pub mod eventfd;
pub mod net;
pub mod rawsys;
pub mod world;

pub use world::WouldBlockForever;

/// Heartbeats for the harness' hang detection: "a run hangs" must mean "no progress", not "took
/// long on a loaded machine". Every access to the simulated kernel (and every call on a scripted
/// stream) bumps the counter of the executing thread's slot; a watchdog declares a hang only when
/// a slot's counter has not moved for the whole grace period.
pub mod heartbeat {
    use std::cell::Cell;
    use std::sync::atomic::{AtomicU64, Ordering};

    pub const SLOTS: usize = 256;
    #[allow(clippy::declare_interior_mutable_const)]
    const ZERO: AtomicU64 = AtomicU64::new(0);
    pub static BEATS: [AtomicU64; SLOTS] = [ZERO; SLOTS];

    thread_local! {
        static SLOT: Cell<usize> = const { Cell::new(SLOTS - 1) };
    }

    /// worker threads take slots 0.., everything else shares the last one
    pub fn set_slot(k: usize) {
        SLOT.with(|s| s.set(k.min(SLOTS - 2)));
    }
    pub fn slot() -> usize {
        SLOT.with(|s| s.get())
    }
    #[inline]
    pub fn beat() {
        BEATS[slot()].fetch_add(1, Ordering::Relaxed);
    }
    pub fn read(k: usize) -> u64 {
        BEATS[k.min(SLOTS - 1)].load(Ordering::Relaxed)
    }
}

pub(crate) fn block(syscall: &'static str, fd: i32) -> ! {
    std::panic::panic_any(WouldBlockForever { syscall, fd })
}
