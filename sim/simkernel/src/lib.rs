//! `simkernel`: a deterministic, single-threaded stand-in for the part of Linux that
//! micro-http's `HttpServer` talks to (AF_UNIX stream sockets, a listener, epoll,
//! eventfd). Hook H1 in /repo/src/server.rs imports these types instead of the std /
//! vmm-sys-util ones when built with `--cfg micro_http_verif`.

pub mod epoll;
pub mod eventfd;
pub mod net;
pub mod world;

pub use world::WouldBlockForever;

pub(crate) fn block(syscall: &'static str, fd: i32) -> ! {
    std::panic::panic_any(WouldBlockForever { syscall, fd })
}
