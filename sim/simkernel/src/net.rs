//! Drop-in replacements for `std::os::unix::net::{UnixListener, UnixStream}`.

use std::io;
use std::os::unix::io::{AsRawFd, FromRawFd, RawFd};
use std::path::Path;

use vmm_sys_util::errno;
use vmm_sys_util::sock_ctrl_msg::ScmSocket;

use crate::world::{self, with};

fn ioerr(e: i32) -> io::Error {
    io::Error::from_raw_os_error(e)
}

pub struct UnixListener {
    fd: RawFd,
    epoch: u64,
}

impl UnixListener {
    pub fn bind<P: AsRef<Path>>(path: P) -> io::Result<UnixListener> {
        let p = path.as_ref().to_string_lossy().to_string();
        let fd = with(|w| w.bind(&p)).map_err(ioerr)?;
        Ok(UnixListener { fd, epoch: world::epoch() })
    }

    pub fn accept(&self) -> io::Result<(UnixStream, ())> {
        if self.epoch != world::epoch() {
            return Err(ioerr(libc::EBADF));
        }
        match with(|w| w.accept(self.fd)) {
            Ok(Some(fd)) => Ok((UnixStream { fd, epoch: self.epoch }, ())),
            // the listener is a blocking descriptor
            Ok(None) => crate::block("accept", self.fd),
            Err(e) => Err(ioerr(e)),
        }
    }
}

impl UnixListener {
    pub fn set_nonblocking(&self, nb: bool) -> io::Result<()> {
        if self.epoch != world::epoch() {
            return Err(ioerr(libc::EBADF));
        }
        with(|w| w.set_nonblocking(self.fd, nb)).map_err(ioerr)
    }

    /// SO_ERROR of a listening socket: never set in the simulation
    pub fn take_error(&self) -> io::Result<Option<io::Error>> {
        Ok(None)
    }
}

impl AsRawFd for UnixListener {
    fn as_raw_fd(&self) -> RawFd {
        self.fd
    }
}

impl FromRawFd for UnixListener {
    unsafe fn from_raw_fd(fd: RawFd) -> Self {
        UnixListener { fd, epoch: world::epoch() }
    }
}

impl Drop for UnixListener {
    fn drop(&mut self) {
        if self.epoch == world::epoch() {
            with(|w| w.close(self.fd));
        }
    }
}

pub struct UnixStream {
    fd: RawFd,
    epoch: u64,
}

impl UnixStream {
    pub fn set_nonblocking(&self, nb: bool) -> io::Result<()> {
        if self.epoch != world::epoch() {
            return Err(ioerr(libc::EBADF));
        }
        with(|w| w.set_nonblocking(self.fd, nb)).map_err(ioerr)
    }

    pub fn shutdown(&self, how: std::net::Shutdown) -> io::Result<()> {
        if self.epoch != world::epoch() {
            return Err(ioerr(libc::EBADF));
        }
        let how = match how {
            std::net::Shutdown::Read => world::How::Rd,
            std::net::Shutdown::Write => world::How::Wr,
            std::net::Shutdown::Both => world::How::RdWr,
        };
        with(|w| w.srv_shutdown(self.fd, how)).map_err(ioerr)
    }

    /// timeouts only matter for blocking descriptors; a blocking call that cannot complete is
    /// reported by the simulation as "would block for ever" whatever the timeout
    pub fn set_read_timeout(&self, _t: Option<std::time::Duration>) -> io::Result<()> {
        Ok(())
    }
    pub fn set_write_timeout(&self, _t: Option<std::time::Duration>) -> io::Result<()> {
        Ok(())
    }

    fn do_read(&self, buf: &mut [u8]) -> Result<usize, i32> {
        if self.epoch != world::epoch() {
            return Err(libc::EBADF);
        }
        match with(|w| w.srv_read(self.fd, buf.len())) {
            Ok(Some(v)) => {
                buf[..v.len()].copy_from_slice(&v);
                Ok(v.len())
            }
            Ok(None) => crate::block("read", self.fd),
            Err(e) => Err(e),
        }
    }
}

impl io::Read for UnixStream {
    fn read(&mut self, buf: &mut [u8]) -> io::Result<usize> {
        self.do_read(buf).map_err(ioerr)
    }
}

impl io::Write for UnixStream {
    fn write(&mut self, buf: &[u8]) -> io::Result<usize> {
        if self.epoch != world::epoch() {
            return Err(ioerr(libc::EBADF));
        }
        match with(|w| w.srv_write(self.fd, buf)) {
            Ok(Some(n)) => Ok(n),
            Ok(None) => crate::block("write", self.fd),
            Err(e) => Err(ioerr(e)),
        }
    }
    fn flush(&mut self) -> io::Result<()> {
        Ok(())
    }
}

impl AsRawFd for UnixStream {
    fn as_raw_fd(&self) -> RawFd {
        self.fd
    }
}

impl ScmSocket for UnixStream {
    fn socket_fd(&self) -> RawFd {
        self.fd
    }

    /// The only way `HttpConnection` reads. Descriptors a simulated client passed are real
    /// descriptors (pipe ends made by the harness); ordering and ownership rules are decided at
    /// connection level, here it is about what the *server* keeps alive.
    unsafe fn recv_with_fds(
        &self,
        iovecs: &mut [libc::iovec],
        fds: &mut [RawFd],
    ) -> errno::Result<(usize, usize)> {
        if iovecs.is_empty() {
            return Ok((0, 0));
        }
        let iov = &iovecs[0];
        // SAFETY: the caller guarantees the iovec describes writable memory.
        let buf = std::slice::from_raw_parts_mut(iov.iov_base as *mut u8, iov.iov_len);
        match self.do_read(buf) {
            Ok(n) => {
                // descriptors a client passed (real ones) arrive with the byte they ride on
                let got = if n > 0 { with(|w| w.take_passed(self.fd, fds.len())) } else { Vec::new() };
                fds[..got.len()].copy_from_slice(&got);
                Ok((n, got.len()))
            }
            Err(e) => Err(errno::Error::new(e)),
        }
    }
}

impl Drop for UnixStream {
    fn drop(&mut self) {
        if self.epoch == world::epoch() {
            with(|w| w.close(self.fd));
        }
    }
}
