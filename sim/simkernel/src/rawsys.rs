//! Seams below the type level: a **virtual clock** and a few **raw system calls by descriptor
//! number**, provided by symbol interposition. The harness binary defines `clock_gettime`,
//! `fcntl` and `ioctl` itself; references to these symbols from the code under test (through the
//! `libc` crate or through std's `Instant` / `SystemTime`) are bound to these definitions at link
//! time, ahead of the C library's.
//!
//! * While a run is executing on the current thread (`clock::enter()` .. guard dropped) every clock
//!   the code under test can read is the simulated one: it starts at a fixed epoch at the start of
//!   the run, moves only when the harness says so (`clock::advance`) plus one microsecond per
//!   reading (so two readings never compare equal), and is therefore a function of the explicit
//!   case - a time-dependent behaviour replays exactly. Outside a run (watchdog threads, the
//!   orchestrating thread, budgets) the real clock is read.
//! * While a simulated process exists on the current thread (`world::reset` .. end of run),
//!   `fcntl(F_GETFL / F_SETFL / F_GETFD / F_SETFD)` and `ioctl(FIONBIO)` on a number that names a
//!   simulated descriptor act on the simulated descriptor (its O_NONBLOCK flag decides whether a
//!   write without space is "would block for ever"); everything else goes to the real system call.
//!
//! Not compiled under Miri (the interpreter provides these functions itself).

use std::cell::Cell;

thread_local! {
    static DEPTH: Cell<u32> = const { Cell::new(0) };
    static NOW_NS: Cell<u64> = const { Cell::new(0) };
    static READS: Cell<u64> = const { Cell::new(0) };
    static SIM_FDS: Cell<bool> = const { Cell::new(false) };
    static TICK_NS: Cell<u64> = const { Cell::new(0) };
    /// what the wall clock (CLOCK_REALTIME, gettimeofday, time) is ahead of / behind the monotonic one
    static RT_OFFSET_NS: Cell<i64> = const { Cell::new(0) };
}

pub mod clock {
    use super::*;

    /// start of every run: 2023-11-14T22:13:20Z, and as many seconds on the monotonic clocks
    pub const EPOCH_NS: u64 = 1_700_000_000_000_000_000;

    pub struct Guard(());

    /// Marks "a run is executing on this thread". Re-entrant; the outermost call restarts the
    /// simulated clock at the epoch and forgets any simulated process of an earlier run.
    pub fn enter() -> Guard {
        DEPTH.with(|d| {
            if d.get() == 0 {
                NOW_NS.with(|n| n.set(EPOCH_NS));
                READS.with(|r| r.set(0));
                TICK_NS.with(|t| t.set(0));
                RT_OFFSET_NS.with(|t| t.set(0));
                SIM_FDS.with(|s| s.set(false));
            }
            d.set(d.get() + 1);
        });
        Guard(())
    }

    impl Drop for Guard {
        fn drop(&mut self) {
            let _ = DEPTH.try_with(|d| {
                d.set(d.get().saturating_sub(1));
                if d.get() == 0 {
                    let _ = SIM_FDS.try_with(|s| s.set(false));
                }
            });
        }
    }

    pub fn active() -> bool {
        DEPTH.try_with(|d| d.get() > 0).unwrap_or(false)
    }

    /// let simulated time pass
    pub fn advance(ns: u64) {
        NOW_NS.with(|n| n.set(n.get().saturating_add(ns)));
    }

    /// the wall clock is stepped (by an administrator, NTP, a VM restore): it jumps forwards or
    /// backwards while the monotonic clock runs on
    pub fn step_realtime(ns: i64) {
        RT_OFFSET_NS.with(|t| t.set(t.get().saturating_add(ns)));
    }

    pub(super) fn realtime_of(mono_ns: u64) -> u64 {
        let off = RT_OFFSET_NS.with(|t| t.get());
        (mono_ns as i128 + off as i128).max(1_000_000_000) as u64
    }

    /// simulated time that passes with every call on a scripted stream from now on (a slow peer)
    pub fn set_tick(ns: u64) {
        TICK_NS.with(|t| t.set(ns));
    }

    /// called by the scripted stream on every receive / write call
    pub fn stream_call() {
        let t = TICK_NS.with(|t| t.get());
        if t > 0 {
            advance(t);
        }
    }

    /// simulated nanoseconds since the start of the run
    pub fn elapsed_ns() -> u64 {
        NOW_NS.with(|n| n.get().saturating_sub(EPOCH_NS))
    }

    /// number of times the code under test (or anything else on this thread) read a clock
    /// during the current run
    pub fn reads() -> u64 {
        READS.with(|r| r.get())
    }

    pub(super) fn read_ns() -> u64 {
        READS.with(|r| r.set(r.get() + 1));
        NOW_NS.with(|n| {
            n.set(n.get() + 1_000);
            n.get()
        })
    }
}

/// called by `world::reset`: from now until the end of the run, raw calls by number on this thread
/// that name a simulated descriptor act on the simulated process
pub fn sim_fds_on() {
    SIM_FDS.with(|s| s.set(clock::active()));
}

fn sim_fds() -> bool {
    SIM_FDS.try_with(|s| s.get()).unwrap_or(false)
}

#[cfg(not(miri))]
mod interpose {
    use super::*;
    use crate::world;

    #[no_mangle]
    pub unsafe extern "C" fn clock_gettime(clk: libc::clockid_t, ts: *mut libc::timespec) -> libc::c_int {
        if clock::active() && !ts.is_null() {
            let mut ns = clock::read_ns();
            if clk == libc::CLOCK_REALTIME || clk == libc::CLOCK_REALTIME_COARSE {
                ns = clock::realtime_of(ns);
            }
            (*ts).tv_sec = (ns / 1_000_000_000) as libc::time_t;
            (*ts).tv_nsec = (ns % 1_000_000_000) as _;
            return 0;
        }
        libc::syscall(libc::SYS_clock_gettime, clk as libc::c_long, ts) as libc::c_int
    }

    #[no_mangle]
    pub unsafe extern "C" fn gettimeofday(tv: *mut libc::timeval, tz: *mut libc::c_void) -> libc::c_int {
        if clock::active() && !tv.is_null() {
            let ns = clock::realtime_of(clock::read_ns());
            (*tv).tv_sec = (ns / 1_000_000_000) as libc::time_t;
            (*tv).tv_usec = ((ns % 1_000_000_000) / 1_000) as _;
            return 0;
        }
        libc::syscall(libc::SYS_gettimeofday, tv, tz) as libc::c_int
    }

    #[no_mangle]
    pub unsafe extern "C" fn time(t: *mut libc::time_t) -> libc::time_t {
        let secs = if clock::active() {
            (clock::realtime_of(clock::read_ns()) / 1_000_000_000) as libc::time_t
        } else {
            let mut ts = libc::timespec { tv_sec: 0, tv_nsec: 0 };
            libc::syscall(libc::SYS_clock_gettime, libc::CLOCK_REALTIME as libc::c_long, &mut ts as *mut libc::timespec);
            ts.tv_sec
        };
        if !t.is_null() {
            *t = secs;
        }
        secs
    }

    /// Some(result) if `fd` names a simulated descriptor of this thread's simulated process
    fn sim_nonblocking(fd: libc::c_int, set: Option<bool>) -> Option<Result<bool, i32>> {
        if !sim_fds() {
            return None;
        }
        world::try_with(|w| {
            w.obj(fd)?;
            Some(match set {
                Some(nb) => w.set_nonblocking(fd, nb).map(|_| nb),
                None => Ok(w.get_nonblocking(fd)),
            })
        })
        .flatten()
    }

    fn set_errno(e: i32) {
        // SAFETY: __errno_location returns the calling thread's errno slot.
        unsafe { *libc::__errno_location() = e };
    }

    #[no_mangle]
    pub unsafe extern "C" fn fcntl(fd: libc::c_int, cmd: libc::c_int, arg: libc::c_long) -> libc::c_int {
        match cmd {
            libc::F_GETFL => {
                if let Some(r) = sim_nonblocking(fd, None) {
                    return match r {
                        Ok(nb) => libc::O_RDWR | if nb { libc::O_NONBLOCK } else { 0 },
                        Err(e) => {
                            set_errno(e);
                            -1
                        }
                    };
                }
            }
            libc::F_SETFL => {
                if let Some(r) = sim_nonblocking(fd, Some(arg as libc::c_int & libc::O_NONBLOCK != 0)) {
                    return match r {
                        Ok(_) => 0,
                        Err(e) => {
                            set_errno(e);
                            -1
                        }
                    };
                }
            }
            libc::F_GETFD | libc::F_SETFD => {
                if sim_nonblocking(fd, None).is_some() {
                    return if cmd == libc::F_GETFD { libc::FD_CLOEXEC } else { 0 };
                }
            }
            _ => {}
        }
        libc::syscall(libc::SYS_fcntl, fd as libc::c_long, cmd as libc::c_long, arg) as libc::c_int
    }

    fn is_sim_stream(fd: libc::c_int) -> bool {
        sim_fds() && world::try_with(|w| matches!(w.obj(fd), Some(world::FdObj::Stream(_)))).unwrap_or(false)
    }

    fn fail(e: i32) -> isize {
        set_errno(e);
        -1
    }

    /// recv / send / shutdown / poll / getsockopt / setsockopt by descriptor number. "C-unwind": a
    /// call that would block for ever raises the stub's distinctive panic, which must be able to
    /// travel through these frames to the harness' catch_unwind.
    #[no_mangle]
    pub unsafe extern "C-unwind" fn recv(fd: libc::c_int, buf: *mut libc::c_void, len: libc::size_t, flags: libc::c_int) -> libc::ssize_t {
        if is_sim_stream(fd) {
            let r = world::with(|w| w.raw_recv(fd, len, flags & libc::MSG_PEEK != 0, flags & libc::MSG_DONTWAIT != 0));
            return match r {
                Ok(Some(v)) => {
                    if !v.is_empty() {
                        std::ptr::copy_nonoverlapping(v.as_ptr(), buf as *mut u8, v.len());
                    }
                    v.len() as libc::ssize_t
                }
                Ok(None) => crate::block("recv", fd),
                Err(e) => fail(e),
            };
        }
        libc::syscall(libc::SYS_recvfrom, fd as libc::c_long, buf, len, flags as libc::c_long, 0usize, 0usize) as libc::ssize_t
    }

    #[no_mangle]
    pub unsafe extern "C-unwind" fn send(fd: libc::c_int, buf: *const libc::c_void, len: libc::size_t, flags: libc::c_int) -> libc::ssize_t {
        if is_sim_stream(fd) {
            let data = std::slice::from_raw_parts(buf as *const u8, len);
            let r = world::with(|w| w.raw_send(fd, data, flags & libc::MSG_DONTWAIT != 0));
            return match r {
                Ok(Some(n)) => n as libc::ssize_t,
                Ok(None) => crate::block("send", fd),
                Err(e) => fail(e),
            };
        }
        libc::syscall(libc::SYS_sendto, fd as libc::c_long, buf, len, flags as libc::c_long, 0usize, 0usize) as libc::ssize_t
    }

    #[no_mangle]
    pub unsafe extern "C" fn shutdown(fd: libc::c_int, how: libc::c_int) -> libc::c_int {
        if is_sim_stream(fd) {
            let h = match how {
                libc::SHUT_RD => world::How::Rd,
                libc::SHUT_WR => world::How::Wr,
                _ => world::How::RdWr,
            };
            return match world::with(|w| w.srv_shutdown(fd, h)) {
                Ok(()) => 0,
                Err(e) => fail(e) as libc::c_int,
            };
        }
        libc::syscall(libc::SYS_shutdown, fd as libc::c_long, how as libc::c_long) as libc::c_int
    }

    #[no_mangle]
    pub unsafe extern "C-unwind" fn poll(fds: *mut libc::pollfd, nfds: libc::nfds_t, timeout: libc::c_int) -> libc::c_int {
        if sim_fds() && !fds.is_null() && nfds > 0 {
            let list = std::slice::from_raw_parts_mut(fds, nfds as usize);
            let masks: Option<Vec<Option<u32>>> = world::try_with(|w| list.iter().map(|p| if p.fd < 0 { None } else { w.raw_poll_mask(p.fd) }).collect());
            if let Some(masks) = masks {
                if masks.iter().any(|m| m.is_some()) {
                    let mut ready = 0;
                    for (p, m) in list.iter_mut().zip(masks.iter()) {
                        p.revents = match m {
                            Some(m) => (*m as libc::c_short) & (p.events | libc::POLLERR | libc::POLLHUP),
                            None if p.fd >= 0 => libc::POLLNVAL,
                            None => 0,
                        };
                        if p.revents != 0 {
                            ready += 1;
                        }
                    }
                    if ready == 0 {
                        if timeout < 0 {
                            crate::block("poll", list[0].fd);
                        }
                        // the timeout expires: simulated time passes
                        clock::advance(timeout as u64 * 1_000_000);
                    }
                    return ready;
                }
            }
        }
        let ts = libc::timespec { tv_sec: (timeout / 1000) as libc::time_t, tv_nsec: ((timeout % 1000) as i64 * 1_000_000) as _ };
        let tsp: *const libc::timespec = if timeout < 0 { std::ptr::null() } else { &ts };
        libc::syscall(libc::SYS_ppoll, fds, nfds, tsp, 0usize, 0usize) as libc::c_int
    }

    #[no_mangle]
    pub unsafe extern "C" fn getsockopt(fd: libc::c_int, level: libc::c_int, name: libc::c_int, val: *mut libc::c_void, len: *mut libc::socklen_t) -> libc::c_int {
        if is_sim_stream(fd) {
            if level != libc::SOL_SOCKET || val.is_null() || len.is_null() || (*len as usize) < std::mem::size_of::<libc::c_int>() {
                return fail(libc::ENOPROTOOPT) as libc::c_int;
            }
            let v: libc::c_int = match name {
                libc::SO_ERROR => match world::with(|w| w.raw_take_error(fd)) {
                    Ok(e) => e,
                    Err(e) => return fail(e) as libc::c_int,
                },
                libc::SO_TYPE => libc::SOCK_STREAM,
                libc::SO_SNDBUF => world::with(|w| w.cfg.cap_s2c) as libc::c_int,
                libc::SO_RCVBUF => world::with(|w| w.cfg.cap_c2s) as libc::c_int,
                libc::SO_ACCEPTCONN => 0,
                _ => return fail(libc::ENOPROTOOPT) as libc::c_int,
            };
            *(val as *mut libc::c_int) = v;
            *len = std::mem::size_of::<libc::c_int>() as libc::socklen_t;
            return 0;
        }
        libc::syscall(libc::SYS_getsockopt, fd as libc::c_long, level as libc::c_long, name as libc::c_long, val, len) as libc::c_int
    }

    #[no_mangle]
    pub unsafe extern "C" fn setsockopt(fd: libc::c_int, level: libc::c_int, name: libc::c_int, val: *const libc::c_void, len: libc::socklen_t) -> libc::c_int {
        if is_sim_stream(fd) {
            // accepted, without effect on the simulated buffers (their sizes are knobs of the case)
            return 0;
        }
        libc::syscall(libc::SYS_setsockopt, fd as libc::c_long, level as libc::c_long, name as libc::c_long, val, len as libc::c_long) as libc::c_int
    }

    #[no_mangle]
    pub unsafe extern "C" fn ioctl(fd: libc::c_int, req: libc::c_ulong, arg: *mut libc::c_void) -> libc::c_int {
        if req == libc::FIONBIO as libc::c_ulong && !arg.is_null() && sim_fds() {
            let on = *(arg as *const libc::c_int) != 0;
            if let Some(r) = sim_nonblocking(fd, Some(on)) {
                return match r {
                    Ok(_) => 0,
                    Err(e) => {
                        set_errno(e);
                        -1
                    }
                };
            }
        }
        libc::syscall(libc::SYS_ioctl, fd as libc::c_long, req, arg) as libc::c_int
    }
}
