//! The simulated process and kernel objects: descriptor table, AF_UNIX stream
//! sockets, listener backlog, epoll (level-triggered) and eventfd.
//!
//! Semantics follow Linux `net/unix/af_unix.c` and `fs/eventpoll.c` as far as
//! micro-http's server uses them; `mhsim conformance` compares them with the real
//! kernel. Everything is single-threaded and thread-local: one World per thread.

use std::cell::RefCell;
use std::collections::{BTreeMap, VecDeque};

pub type Fd = i32;

pub const RCV_SHUTDOWN: u8 = 1;
pub const SEND_SHUTDOWN: u8 = 2;
pub const SHUTDOWN_MASK: u8 = 3;

pub const EPOLLIN: u32 = 0x001;
pub const EPOLLOUT: u32 = 0x004;
pub const EPOLLERR: u32 = 0x008;
pub const EPOLLHUP: u32 = 0x010;
pub const EPOLLRDHUP: u32 = 0x2000;
pub const EPOLLONESHOT: u32 = 1 << 30;
pub const EPOLLET: u32 = 1 << 31;

/// system calls inside one library call beyond which the call is declared livelocked
pub const SYSCALL_STORM: usize = 300_000;

/// Raised (as a panic payload) when the simulated process would block for ever:
/// in a single-threaded simulation nobody else can make progress meanwhile.
#[derive(Debug, Clone)]
pub struct WouldBlockForever {
    pub syscall: &'static str,
    pub fd: Fd,
}

#[derive(Clone, Copy, Debug, PartialEq, Eq)]
pub enum How {
    Rd,
    Wr,
    RdWr,
}

#[derive(Clone, Copy, Debug, PartialEq, Eq)]
pub enum OutThreshold {
    /// writable whenever at least one byte of space is free
    AnySpace,
    /// Linux: writable when at most a quarter of the send buffer is in use
    Quarter,
}

#[derive(Clone, Debug)]
pub struct Config {
    /// capacity of the client -> server direction (bytes queued, unread by the server)
    pub cap_c2s: usize,
    /// capacity of the server -> client direction
    pub cap_s2c: usize,
    pub out_threshold: OutThreshold,
    /// keep a syscall log
    pub log: bool,
    /// lowest descriptor number the process can be given (3 = stdin/stdout/stderr are open;
    /// 0 = a daemon that closed them)
    pub first_fd: i32,
    /// the process holds other descriptors, so that only every `fd_stride`-th number (counted from
    /// `first_fd`) is free for the objects of the simulation: connections get numbers that are far
    /// apart and congruent modulo the stride (0 and 1 = no gaps)
    pub fd_stride: usize,
}

impl Default for Config {
    fn default() -> Self {
        Config {
            cap_c2s: 212_992,
            cap_s2c: 212_992,
            out_threshold: OutThreshold::Quarter,
            log: true,
            first_fd: 3,
            fd_stride: 1,
        }
    }
}

#[derive(Clone, Copy, Debug, PartialEq, Eq)]
pub enum Sys {
    Read,
    Write,
    EpollWait,
}

/// A one-shot injected syscall failure (server side only).
#[derive(Clone, Copy, Debug)]
pub struct Fault {
    pub sys: Sys,
    /// connection (client id) the fault is aimed at; None = the next such call on any
    pub conn: Option<usize>,
    pub errno: i32,
}

#[derive(Clone, Debug, PartialEq, Eq)]
pub enum LogEntry {
    Bind { fd: Fd },
    Accept { conn: usize, fd: Fd },
    AcceptBlocked,
    Read { conn: usize, fd: Fd, res: Result<usize, i32> },
    Write { conn: usize, fd: Fd, len: usize, res: Result<usize, i32> },
    Close { fd: Fd, conn: Option<usize> },
    EpollCtl { op: u8, fd: Fd, events: u32, res: Result<(), i32> },
    /// (conn or special id, fd, events); special: usize::MAX = listener, usize::MAX-1 = eventfd
    EpollWait { res: Result<Vec<(usize, Fd, u32)>, i32> },
    EventRead { fd: Fd },
    EventWrite { fd: Fd },
}

pub const OBJ_LISTENER: usize = usize::MAX;
pub const OBJ_EVENTFD: usize = usize::MAX - 1;

#[derive(Debug)]
pub struct Endpoint {
    pub rx: VecDeque<u8>,
    pub rx_cap: usize,
    pub shutdown: u8,
    pub err: Option<i32>,
    pub nonblocking: bool,
    /// the handle (descriptor) of this endpoint is still open
    pub open: bool,
    /// bumped whenever something happens that the kernel would call a wake-up on this endpoint
    /// (data arrived, space freed, shutdown / close by the peer): edges for EPOLLET
    pub activity: u64,
}

impl Endpoint {
    fn new(cap: usize) -> Self {
        Endpoint {
            rx: VecDeque::new(),
            rx_cap: cap,
            shutdown: 0,
            err: None,
            nonblocking: false,
            open: true,
            activity: 0,
        }
    }
}

/// One client connection: a client endpoint and the server-side endpoint
/// (an embryo until accepted).
#[derive(Debug)]
pub struct Conn {
    pub client: Endpoint,
    pub server: Endpoint,
    pub accepted: bool,
    /// descriptor number of the server endpoint while it is open
    pub server_fd: Option<Fd>,
    /// total bytes the server endpoint has read / written (for observation)
    pub srv_read: u64,
    pub srv_written: u64,
    /// further references to the server endpoint's open file description held outside the
    /// simulated process' descriptor table (a forked child that inherited it): while > 0,
    /// close() by the server neither closes the connection nor removes its epoll registrations
    pub extra_refs: u32,
    /// bytes the client has put into the connection so far
    pub c2s_sent: u64,
    /// real descriptors in flight from the client to the server (SCM_RIGHTS): (stream offset of
    /// the byte they ride on, descriptor). Delivered with the receive that takes that byte; closed by
    /// the "kernel" if the server closes the connection first.
    pub passed: VecDeque<(u64, i32)>,
}

/// descriptor "numbers" under which registrations of closed-but-still-referenced descriptions
/// stay in an epoll interest list (GHOST_BASE + connection id); no system call can name them
pub const GHOST_BASE: Fd = 1 << 20;

#[derive(Clone, Copy, Debug, PartialEq, Eq)]
pub enum FdObj {
    Listener(usize),
    Stream(usize),
    Epoll(usize),
    Event(usize),
}

#[derive(Debug, Default)]
pub struct Listener {
    pub path: String,
    pub backlog: VecDeque<usize>,
    pub open: bool,
    pub activity: u64,
    /// O_NONBLOCK on the listening descriptor (off after bind, as in the kernel)
    pub nonblocking: bool,
}

#[derive(Debug, Default)]
pub struct EpollObj {
    /// fd -> (interest, data); BTreeMap for deterministic iteration
    pub interest: BTreeMap<Fd, (u32, u64)>,
    /// fd -> activity counter of the object when it was last reported (EPOLLET), u64::MAX = never
    pub seen: BTreeMap<Fd, u64>,
    pub open: bool,
}

#[derive(Debug, Default)]
pub struct EventObj {
    pub counter: u64,
    pub nonblocking: bool,
    pub refs: usize,
    pub activity: u64,
}

pub struct World {
    pub epoch: u64,
    pub cfg: Config,
    pub fds: Vec<Option<FdObj>>,
    pub conns: Vec<Conn>,
    pub listeners: Vec<Listener>,
    pub epolls: Vec<EpollObj>,
    pub events: Vec<EventObj>,
    pub log: Vec<LogEntry>,
    pub faults: Vec<Fault>,
    /// connections for which the next epoll_wait reports EPOLLIN although nothing is readable
    /// (a spurious readiness notification, which the epoll contract allows; on Linux >= 5.15 an
    /// out-of-band byte on an AF_UNIX stream socket produces exactly this: EPOLLIN, then EAGAIN)
    pub spurious_in: Vec<usize>,
    pub next_order_key: u64,
    pub next_wait_eintr: bool,
    /// counters
    pub n_syscalls: u64,
    pub fd_reuse: u64,
    pub ever_used_fds: Vec<bool>,
    /// connections whose client is a *spinning sender*: whenever the server has taken bytes from the
    /// socket, the client has already put more in (conn, bytes injected so far). This is the one
    /// place where a client acts *inside* a library call: at the server's receive system calls.
    pub firehose: Vec<(usize, u64)>,
    pub foreign_fds: Vec<Fd>,
    pub faults_fired: u64,
}

thread_local! {
    static WORLD: RefCell<World> = RefCell::new(World::new(Config::default(), 0));
}

pub fn with<R>(f: impl FnOnce(&mut World) -> R) -> R {
    crate::heartbeat::beat();
    // a slow machine: simulated time passes with every access to the simulated kernel (0 by default)
    crate::rawsys::clock::stream_call();
    WORLD.with(|w| f(&mut w.borrow_mut()))
}

/// like `with`, but gives up (None) if the world is borrowed right now or the thread is shutting down
pub fn try_with<R>(f: impl FnOnce(&mut World) -> R) -> Option<R> {
    WORLD.try_with(|w| w.try_borrow_mut().ok().map(|mut g| f(&mut g))).ok().flatten()
}

/// Start a new simulated process. Handles created before are ignored from now on.
pub fn reset(cfg: Config) -> u64 {
    crate::rawsys::sim_fds_on();
    with(|w| {
        let e = w.epoch + 1;
        *w = World::new(cfg, e);
        e
    })
}

pub fn epoch() -> u64 {
    with(|w| w.epoch)
}

fn mix(mut x: u64) -> u64 {
    x = x.wrapping_add(0x9E37_79B9_7F4A_7C15);
    x = (x ^ (x >> 30)).wrapping_mul(0xBF58_476D_1CE4_E5B9);
    x = (x ^ (x >> 27)).wrapping_mul(0x94D0_49BB_1331_11EB);
    x ^ (x >> 31)
}

impl World {
    pub fn new(cfg: Config, epoch: u64) -> Self {
        World {
            epoch,
            cfg,
            fds: vec![None, None, None],
            conns: Vec::new(),
            listeners: Vec::new(),
            epolls: Vec::new(),
            events: Vec::new(),
            log: Vec::new(),
            faults: Vec::new(),
            spurious_in: Vec::new(),
            next_order_key: 0,
            next_wait_eintr: false,
            n_syscalls: 0,
            fd_reuse: 0,
            ever_used_fds: Vec::new(),
            firehose: Vec::new(),
            foreign_fds: Vec::new(),
            faults_fired: 0,
        }
    }

    fn push_log(&mut self, e: LogEntry) {
        if self.cfg.log {
            self.log.push(e);
            // One library call that issues this many system calls is not making progress (e.g. retrying
            // EAGAIN in a loop): in a single-threaded simulation nothing can change meanwhile.
            if self.log.len() > SYSCALL_STORM {
                self.log.clear();
                std::panic::panic_any(WouldBlockForever { syscall: "a retry loop (hundreds of thousands of system calls inside one call)", fd: -1 });
            }
        }
    }

    fn alloc_fd(&mut self, obj: FdObj) -> Fd {
        // lowest free number (from 3 when the standard descriptors are open), as Linux does
        let mut i = self.cfg.first_fd.max(0) as usize;
        loop {
            if i >= self.fds.len() {
                self.fds.resize(i + 1, None);
            }
            let base = self.cfg.first_fd.max(0) as usize;
            if self.cfg.fd_stride > 1 && (i - base) % self.cfg.fd_stride != 0 {
                // a number held by something else in the process
                i += 1;
                continue;
            }
            if self.fds[i].is_none() {
                self.fds[i] = Some(obj);
                if self.ever_used_fds.len() <= i {
                    self.ever_used_fds.resize(i + 1, false);
                }
                if self.ever_used_fds[i] {
                    self.fd_reuse += 1;
                }
                self.ever_used_fds[i] = true;
                return i as Fd;
            }
            i += 1;
        }
    }

    pub fn obj(&self, fd: Fd) -> Option<FdObj> {
        if fd < 0 {
            return None;
        }
        if fd >= GHOST_BASE {
            let c = (fd - GHOST_BASE) as usize;
            return if self.conns.get(c).map(|x| x.extra_refs > 0 && x.server_fd.is_none()).unwrap_or(false) { Some(FdObj::Stream(c)) } else { None };
        }
        self.fds.get(fd as usize).and_then(|o| *o)
    }

    /// The simulated process forks: the child inherits every open stream descriptor and keeps
    /// it open (it never uses it). From the parent's point of view nothing changes, except what
    /// the kernel does when the parent closes such a descriptor: the open file description
    /// lives on, so the peer sees no hang-up and epoll registrations made through the closed
    /// descriptor stay active and can no longer be removed (EPOLL_CTL_DEL needs the descriptor).
    pub fn fork_inherit(&mut self) {
        self.n_syscalls += 1;
        for i in 0..self.fds.len() {
            if let Some(FdObj::Stream(c)) = self.fds[i] {
                self.conns[c].extra_refs += 1;
            }
        }
    }

    /// The child exits: its references go away; descriptions the parent had already closed are
    /// now really closed.
    pub fn child_exit(&mut self) {
        self.n_syscalls += 1;
        for c in 0..self.conns.len() {
            if self.conns[c].extra_refs > 0 {
                let ghost = self.conns[c].server_fd.is_none();
                if ghost {
                    let g = GHOST_BASE + c as Fd;
                    for ep in self.epolls.iter_mut() {
                        ep.interest.remove(&g);
                        ep.seen.remove(&g);
                    }
                }
                self.conns[c].extra_refs = 0;
                if ghost {
                    self.ep_close(c, true);
                }
            }
        }
    }

    fn take_fault(&mut self, sys: Sys, conn: Option<usize>) -> Option<i32> {
        let pos = self.faults.iter().position(|f| {
            f.sys == sys && (f.conn.is_none() || conn.is_none() || f.conn == conn)
        })?;
        let f = self.faults.remove(pos);
        self.faults_fired += 1;
        Some(f.errno)
    }

    // ---------------------------------------------------------------- listener

    pub fn bind(&mut self, path: &str) -> Result<Fd, i32> {
        self.n_syscalls += 1;
        if self.listeners.iter().any(|l| l.open && l.path == path) {
            return Err(libc::EADDRINUSE);
        }
        self.listeners.push(Listener {
            path: path.to_string(),
            backlog: VecDeque::new(),
            open: true,
            activity: 0,
            nonblocking: false,
        });
        let fd = self.alloc_fd(FdObj::Listener(self.listeners.len() - 1));
        self.push_log(LogEntry::Bind { fd });
        Ok(fd)
    }

    /// Ok(Some(fd)) accepted; Ok(None) would block.
    pub fn accept(&mut self, lfd: Fd) -> Result<Option<Fd>, i32> {
        self.n_syscalls += 1;
        let lid = match self.obj(lfd) {
            Some(FdObj::Listener(l)) => l,
            Some(_) => return Err(libc::ENOTSOCK),
            None => return Err(libc::EBADF),
        };
        match self.listeners[lid].backlog.pop_front() {
            Some(conn) => {
                let fd = self.alloc_fd(FdObj::Stream(conn));
                let c = &mut self.conns[conn];
                c.accepted = true;
                c.server_fd = Some(fd);
                self.push_log(LogEntry::Accept { conn, fd });
                Ok(Some(fd))
            }
            None => {
                if self.listeners[lid].nonblocking {
                    return Err(libc::EAGAIN);
                }
                self.push_log(LogEntry::AcceptBlocked);
                Ok(None)
            }
        }
    }

    // ------------------------------------------------------------------ client

    pub fn client_connect(&mut self, path: &str) -> Result<usize, i32> {
        let lid = self
            .listeners
            .iter()
            .position(|l| l.open && l.path == path)
            .ok_or(libc::ECONNREFUSED)?;
        let mut client = Endpoint::new(self.cfg.cap_s2c);
        client.nonblocking = true;
        let server = Endpoint::new(self.cfg.cap_c2s);
        self.conns.push(Conn {
            client,
            server,
            accepted: false,
            server_fd: None,
            srv_read: 0,
            srv_written: 0,
            extra_refs: 0,
            c2s_sent: 0,
            passed: VecDeque::new(),
        });
        let id = self.conns.len() - 1;
        self.listeners[lid].backlog.push_back(id);
        self.listeners[lid].activity += 1;
        Ok(id)
    }

    fn ends(&mut self, conn: usize, server_side: bool) -> (&mut Endpoint, &mut Endpoint) {
        let c = &mut self.conns[conn];
        if server_side {
            (&mut c.server, &mut c.client)
        } else {
            (&mut c.client, &mut c.server)
        }
    }

    /// write from one endpoint towards its peer (non-blocking semantics:
    /// Err(EAGAIN) when no space). Order of checks follows unix_stream_sendmsg.
    fn ep_write(&mut self, conn: usize, server_side: bool, buf: &[u8]) -> Result<usize, i32> {
        let (me, peer) = self.ends(conn, server_side);
        if !me.open {
            return Err(libc::EBADF);
        }
        if me.shutdown & SEND_SHUTDOWN != 0 {
            return Err(libc::EPIPE);
        }
        if let Some(e) = me.err.take() {
            return Err(e);
        }
        if !peer.open || peer.shutdown & RCV_SHUTDOWN != 0 {
            return Err(libc::EPIPE);
        }
        if buf.is_empty() {
            return Ok(0);
        }
        let free = peer.rx_cap.saturating_sub(peer.rx.len());
        if free == 0 {
            return Err(libc::EAGAIN);
        }
        let n = free.min(buf.len());
        peer.rx.extend(&buf[..n]);
        peer.activity += 1;
        Ok(n)
    }

    /// read at an endpoint; order of checks follows unix_stream_read_generic.
    fn ep_read(&mut self, conn: usize, server_side: bool, max: usize) -> Result<Vec<u8>, i32> {
        let (me, _peer) = self.ends(conn, server_side);
        if !me.open {
            return Err(libc::EBADF);
        }
        if max == 0 {
            return Ok(Vec::new());
        }
        if !me.rx.is_empty() {
            let n = max.min(me.rx.len());
            let v: Vec<u8> = me.rx.drain(..n).collect();
            // space was freed for the writer on the other side
            _peer.activity += 1;
            return Ok(v);
        }
        if let Some(e) = me.err.take() {
            return Err(e);
        }
        if me.shutdown & RCV_SHUTDOWN != 0 {
            return Ok(Vec::new());
        }
        Err(libc::EAGAIN)
    }

    fn ep_shutdown(&mut self, conn: usize, server_side: bool, how: How) -> Result<(), i32> {
        let (me, peer) = self.ends(conn, server_side);
        if !me.open {
            return Err(libc::EBADF);
        }
        let mode = match how {
            How::Rd => RCV_SHUTDOWN,
            How::Wr => SEND_SHUTDOWN,
            How::RdWr => SHUTDOWN_MASK,
        };
        me.shutdown |= mode;
        me.activity += 1;
        peer.activity += 1;
        if peer.open {
            let mut peer_mode = 0;
            if mode & RCV_SHUTDOWN != 0 {
                peer_mode |= SEND_SHUTDOWN;
            }
            if mode & SEND_SHUTDOWN != 0 {
                peer_mode |= RCV_SHUTDOWN;
            }
            peer.shutdown |= peer_mode;
        }
        Ok(())
    }

    fn ep_close(&mut self, conn: usize, server_side: bool) {
        let (me, peer) = self.ends(conn, server_side);
        if !me.open {
            return;
        }
        me.open = false;
        let unread = !me.rx.is_empty();
        me.rx.clear();
        me.shutdown = SHUTDOWN_MASK;
        peer.activity += 1;
        if peer.open {
            peer.shutdown = SHUTDOWN_MASK;
            if unread {
                peer.err = Some(libc::ECONNRESET);
            }
        }
    }

    fn ep_poll(&self, conn: usize, server_side: bool) -> u32 {
        let c = &self.conns[conn];
        let (me, peer) = if server_side { (&c.server, &c.client) } else { (&c.client, &c.server) };
        let mut m = 0;
        if me.err.is_some() {
            m |= EPOLLERR;
        }
        if me.shutdown == SHUTDOWN_MASK {
            m |= EPOLLHUP;
        }
        if me.shutdown & RCV_SHUTDOWN != 0 {
            m |= EPOLLIN | EPOLLRDHUP;
        }
        if !me.rx.is_empty() {
            m |= EPOLLIN;
        }
        // writability: memory charged to this sender is what sits unread in the peer's queue
        let used = if peer.open { peer.rx.len() } else { 0 };
        let cap = peer.rx_cap;
        let writable = match self.cfg.out_threshold {
            OutThreshold::AnySpace => used < cap,
            OutThreshold::Quarter => used.saturating_mul(4) <= cap,
        };
        if writable {
            m |= EPOLLOUT;
        }
        m
    }

    pub fn client_send(&mut self, conn: usize, buf: &[u8]) -> Result<usize, i32> {
        let r = self.ep_write(conn, false, buf);
        if let Ok(n) = r {
            self.conns[conn].c2s_sent += n as u64;
        }
        r
    }

    /// the client passes real descriptors (SCM_RIGHTS): they ride on the next byte it sends
    pub fn client_pass_fds(&mut self, conn: usize, fds: &[i32]) {
        let at = self.conns[conn].c2s_sent;
        for fd in fds {
            self.conns[conn].passed.push_back((at, *fd));
        }
        // a receiver that is already gone (accepted and closed): the message is never queued
        if self.conns[conn].accepted && !self.conns[conn].server.open {
            self.purge_passed(conn);
        }
    }

    /// descriptors that arrived with the bytes the server has received so far (at most `room`)
    pub fn take_passed(&mut self, fd: Fd, room: usize) -> Vec<i32> {
        let conn = match self.stream_of(fd) {
            Ok(c) => c,
            Err(_) => return Vec::new(),
        };
        let upto = self.conns[conn].srv_read;
        let mut out = Vec::new();
        while out.len() < room {
            match self.conns[conn].passed.front() {
                Some((at, _)) if *at < upto => out.push(self.conns[conn].passed.pop_front().unwrap().1),
                _ => break,
            }
        }
        out
    }

    fn purge_passed(&mut self, conn: usize) {
        for (_, fd) in self.conns[conn].passed.drain(..) {
            // SAFETY: a real descriptor owned by the simulated kernel since the client passed it.
            unsafe { libc::close(fd) };
        }
    }
    pub fn client_recv(&mut self, conn: usize, max: usize) -> Result<Vec<u8>, i32> {
        self.ep_read(conn, false, max)
    }
    pub fn client_shutdown(&mut self, conn: usize, how: How) -> Result<(), i32> {
        self.ep_shutdown(conn, false, how)
    }
    pub fn client_close(&mut self, conn: usize) {
        self.ep_close(conn, false)
    }
    pub fn client_poll(&self, conn: usize) -> u32 {
        self.ep_poll(conn, false)
    }
    /// would the server-side endpoint of this connection be reported writable (EPOLLOUT)?
    pub fn client_poll_peer_writable(&self, conn: usize) -> bool {
        self.ep_poll(conn, true) & EPOLLOUT != 0
    }
    /// free space in the client -> server direction
    pub fn c2s_free(&self, conn: usize) -> usize {
        let c = &self.conns[conn];
        c.server.rx_cap.saturating_sub(c.server.rx.len())
    }
    /// free space in the server -> client direction
    pub fn s2c_free(&self, conn: usize) -> usize {
        let c = &self.conns[conn];
        c.client.rx_cap.saturating_sub(c.client.rx.len())
    }
    /// bytes queued towards the server and not yet read by it
    pub fn c2s_queued(&self, conn: usize) -> usize {
        self.conns[conn].server.rx.len()
    }
    pub fn s2c_queued(&self, conn: usize) -> usize {
        self.conns[conn].client.rx.len()
    }

    // ---------------------------------------------------------- server streams

    fn stream_of(&self, fd: Fd) -> Result<usize, i32> {
        match self.obj(fd) {
            Some(FdObj::Stream(c)) => Ok(c),
            Some(_) => Err(libc::ENOTSOCK),
            None => Err(libc::EBADF),
        }
    }

    pub fn get_nonblocking(&self, fd: Fd) -> bool {
        match self.obj(fd) {
            Some(FdObj::Stream(c)) => self.conns[c].server.nonblocking,
            Some(FdObj::Event(e)) => self.events[e].nonblocking,
            Some(FdObj::Listener(l)) => self.listeners[l].nonblocking,
            _ => false,
        }
    }

    pub fn set_nonblocking(&mut self, fd: Fd, nb: bool) -> Result<(), i32> {
        self.n_syscalls += 1;
        match self.obj(fd) {
            Some(FdObj::Stream(c)) => {
                self.conns[c].server.nonblocking = nb;
                Ok(())
            }
            Some(FdObj::Event(e)) => {
                self.events[e].nonblocking = nb;
                Ok(())
            }
            Some(FdObj::Listener(l)) => {
                self.listeners[l].nonblocking = nb;
                Ok(())
            }
            Some(_) => Ok(()),
            None => Err(libc::EBADF),
        }
    }

    /// Ok(None) = would block for ever (blocking descriptor, nothing to read).
    pub fn srv_read(&mut self, fd: Fd, max: usize) -> Result<Option<Vec<u8>>, i32> {
        self.n_syscalls += 1;
        let conn = self.stream_of(fd)?;
        if let Some(e) = self.take_fault(Sys::Read, Some(conn)) {
            self.push_log(LogEntry::Read { conn, fd, res: Err(e) });
            return Err(e);
        }
        let nb = self.conns[conn].server.nonblocking;
        let r = self.ep_read(conn, true, max);
        match r {
            Err(e) if e == libc::EAGAIN && !nb => {
                self.push_log(LogEntry::Read { conn, fd, res: Err(e) });
                Ok(None)
            }
            Err(e) => {
                self.push_log(LogEntry::Read { conn, fd, res: Err(e) });
                Err(e)
            }
            Ok(v) => {
                self.conns[conn].srv_read += v.len() as u64;
                self.push_log(LogEntry::Read { conn, fd, res: Ok(v.len()) });
                if !self.firehose.is_empty() {
                    self.firehose_top_up(conn);
                }
                Ok(Some(v))
            }
        }
    }

    /// Ok(None) = would block for ever.
    pub fn srv_write(&mut self, fd: Fd, buf: &[u8]) -> Result<Option<usize>, i32> {
        self.n_syscalls += 1;
        let conn = self.stream_of(fd)?;
        if let Some(e) = self.take_fault(Sys::Write, Some(conn)) {
            self.push_log(LogEntry::Write { conn, fd, len: buf.len(), res: Err(e) });
            return Err(e);
        }
        let nb = self.conns[conn].server.nonblocking;
        if nb {
            let r = self.ep_write(conn, true, buf);
            if let Ok(n) = r {
                self.conns[conn].srv_written += n as u64;
            }
            self.push_log(LogEntry::Write { conn, fd, len: buf.len(), res: r });
            return r.map(Some);
        }
        // blocking descriptor: everything or block
        let mut done = 0;
        while done < buf.len() {
            match self.ep_write(conn, true, &buf[done..]) {
                Ok(n) => {
                    done += n;
                    self.conns[conn].srv_written += n as u64;
                }
                Err(e) if e == libc::EAGAIN => {
                    self.push_log(LogEntry::Write { conn, fd, len: buf.len(), res: Err(e) });
                    return Ok(None);
                }
                Err(e) => {
                    if done > 0 {
                        break;
                    }
                    self.push_log(LogEntry::Write { conn, fd, len: buf.len(), res: Err(e) });
                    return Err(e);
                }
            }
        }
        self.push_log(LogEntry::Write { conn, fd, len: buf.len(), res: Ok(done) });
        Ok(Some(done))
    }

    /// what a spinning sender sends: header lines without end (the request never completes)
    pub const FIREHOSE_UNIT: &'static [u8] = b"A: b\r\n";

    /// the client of `conn` becomes a spinning sender from now on
    pub fn firehose_start(&mut self, conn: usize) {
        if !self.firehose.iter().any(|f| f.0 == conn) {
            self.firehose.push((conn, 0));
        }
        self.firehose_top_up(conn);
    }

    pub fn firehose_stop(&mut self, conn: usize) {
        self.firehose.retain(|f| f.0 != conn);
    }

    pub fn firehose_injected(&self, conn: usize) -> u64 {
        self.firehose.iter().find(|f| f.0 == conn).map(|f| f.1).unwrap_or(0)
    }

    /// fill the server's receive queue of `conn` to the brim again
    fn firehose_top_up(&mut self, conn: usize) {
        let k = match self.firehose.iter().position(|f| f.0 == conn) {
            Some(k) => k,
            None => return,
        };
        let mut injected = self.firehose[k].1;
        {
            let (me, peer) = self.ends(conn, true);
            if !me.open || !peer.open || me.shutdown & RCV_SHUTDOWN != 0 {
                return;
            }
            while me.rx.len() < me.rx_cap {
                me.rx.push_back(Self::FIREHOSE_UNIT[(injected % Self::FIREHOSE_UNIT.len() as u64) as usize]);
                injected += 1;
            }
            me.activity += 1;
        }
        self.firehose[k].1 = injected;
    }

    /// `recv(fd, .., flags)` issued by number (raw libc call): MSG_PEEK leaves the data queued and is
    /// not logged as a read; MSG_DONTWAIT makes this one call non-blocking. Ok(None) = would block for ever.
    pub fn raw_recv(&mut self, fd: Fd, max: usize, peek: bool, dontwait: bool) -> Result<Option<Vec<u8>>, i32> {
        if !peek {
            let conn = self.stream_of(fd)?;
            let nb = self.conns[conn].server.nonblocking;
            self.conns[conn].server.nonblocking = nb || dontwait;
            let r = self.srv_read(fd, max);
            self.conns[conn].server.nonblocking = nb;
            return r;
        }
        self.n_syscalls += 1;
        let conn = self.stream_of(fd)?;
        let nb = self.conns[conn].server.nonblocking || dontwait;
        let (me, _peer) = self.ends(conn, true);
        if !me.open {
            return Err(libc::EBADF);
        }
        if !me.rx.is_empty() {
            let n = max.min(me.rx.len());
            return Ok(Some(me.rx.iter().take(n).cloned().collect()));
        }
        if let Some(e) = me.err.take() {
            return Err(e);
        }
        if me.shutdown & RCV_SHUTDOWN != 0 || max == 0 {
            return Ok(Some(Vec::new()));
        }
        if nb {
            Err(libc::EAGAIN)
        } else {
            Ok(None)
        }
    }

    /// `send(fd, .., flags)` issued by number
    pub fn raw_send(&mut self, fd: Fd, buf: &[u8], dontwait: bool) -> Result<Option<usize>, i32> {
        let conn = self.stream_of(fd)?;
        let nb = self.conns[conn].server.nonblocking;
        self.conns[conn].server.nonblocking = nb || dontwait;
        let r = self.srv_write(fd, buf);
        self.conns[conn].server.nonblocking = nb;
        r
    }

    /// poll(2) mask of a descriptor of the simulated process (same bit values as epoll's)
    pub fn raw_poll_mask(&self, fd: Fd) -> Option<u32> {
        self.obj(fd)?;
        Some(self.poll_fd(fd))
    }

    /// SO_ERROR: the pending error of a stream, taken
    pub fn raw_take_error(&mut self, fd: Fd) -> Result<i32, i32> {
        let conn = self.stream_of(fd)?;
        let (me, _peer) = self.ends(conn, true);
        Ok(me.err.take().unwrap_or(0))
    }

    pub fn srv_shutdown(&mut self, fd: Fd, how: How) -> Result<(), i32> {
        self.n_syscalls += 1;
        let conn = self.stream_of(fd)?;
        self.ep_shutdown(conn, true, how)
    }

    pub fn close(&mut self, fd: Fd) {
        self.n_syscalls += 1;
        let obj = match self.obj(fd) {
            Some(o) => o,
            None => return,
        };
        self.fds[fd as usize] = None;
        if let FdObj::Stream(c) = obj {
            if self.conns[c].extra_refs > 0 {
                // another reference to the open file description exists: registrations stay (under
                // a number nobody can name), the connection stays open
                let g = GHOST_BASE + c as Fd;
                for ep in self.epolls.iter_mut() {
                    if let Some(e) = ep.interest.remove(&fd) {
                        ep.interest.insert(g, e);
                    }
                    if let Some(a) = ep.seen.remove(&fd) {
                        ep.seen.insert(g, a);
                    }
                }
                self.conns[c].server_fd = None;
                self.push_log(LogEntry::Close { fd, conn: Some(c) });
                return;
            }
        }
        // a closed descriptor leaves every epoll interest list
        for ep in self.epolls.iter_mut() {
            ep.interest.remove(&fd);
        }
        let mut conn_id = None;
        match obj {
            FdObj::Stream(c) => {
                conn_id = Some(c);
                self.conns[c].server_fd = None;
                self.ep_close(c, true);
                // descriptors still in flight to a closed receiver are closed by the kernel
                self.purge_passed(c);
            }
            FdObj::Listener(l) => {
                self.listeners[l].open = false;
                // embryos are reset
                let embryos: Vec<usize> = self.listeners[l].backlog.drain(..).collect();
                for c in embryos {
                    self.ep_close(c, true);
                    if self.conns[c].client.open {
                        self.conns[c].client.err = Some(libc::ECONNRESET);
                    }
                }
            }
            FdObj::Epoll(e) => {
                self.epolls[e].open = false;
                self.epolls[e].interest.clear();
            }
            FdObj::Event(e) => {
                self.events[e].refs = self.events[e].refs.saturating_sub(1);
            }
        }
        self.push_log(LogEntry::Close { fd, conn: conn_id });
    }

    // ------------------------------------------------------------------- epoll

    pub fn epoll_create(&mut self) -> Fd {
        self.n_syscalls += 1;
        self.epolls.push(EpollObj { interest: BTreeMap::new(), seen: BTreeMap::new(), open: true });
        self.alloc_fd(FdObj::Epoll(self.epolls.len() - 1))
    }

    pub fn epoll_ctl(&mut self, epfd: Fd, op: u8, fd: Fd, events: u32, data: u64) -> Result<(), i32> {
        self.n_syscalls += 1;
        let res = (|| {
            let ep = match self.obj(epfd) {
                Some(FdObj::Epoll(e)) => e,
                Some(_) => return Err(libc::EINVAL),
                None => return Err(libc::EBADF),
            };
            if self.obj(fd).is_none() {
                return Err(libc::EBADF);
            }
            if fd == epfd {
                return Err(libc::EINVAL);
            }
            let il = &mut self.epolls[ep].interest;
            match op {
                // add
                1 => {
                    if il.contains_key(&fd) {
                        return Err(libc::EEXIST);
                    }
                    il.insert(fd, (events, data));
                    self.epolls[ep].seen.remove(&fd);
                }
                // del
                2 => {
                    if il.remove(&fd).is_none() {
                        return Err(libc::ENOENT);
                    }
                    self.epolls[ep].seen.remove(&fd);
                }
                // mod
                3 => match il.get_mut(&fd) {
                    Some(e) => {
                        *e = (events, data);
                        // EPOLL_CTL_MOD re-arms edge-triggered and one-shot registrations
                        self.epolls[ep].seen.remove(&fd);
                    }
                    None => return Err(libc::ENOENT),
                },
                _ => return Err(libc::EINVAL),
            }
            Ok(())
        })();
        self.push_log(LogEntry::EpollCtl { op, fd, events, res });
        res
    }

    fn poll_fd(&self, fd: Fd) -> u32 {
        match self.obj(fd) {
            Some(FdObj::Stream(c)) => self.ep_poll(c, true),
            Some(FdObj::Listener(l)) => {
                if self.listeners[l].backlog.is_empty() {
                    0
                } else {
                    EPOLLIN
                }
            }
            Some(FdObj::Event(e)) => {
                let mut m = EPOLLOUT;
                if self.events[e].counter > 0 {
                    m |= EPOLLIN;
                }
                m
            }
            Some(FdObj::Epoll(e)) => {
                if self.epoll_ready_list(e).is_empty() {
                    0
                } else {
                    EPOLLIN
                }
            }
            None => 0,
        }
    }

    fn obj_key(&self, fd: Fd) -> (u64, u64) {
        match self.obj(fd) {
            Some(FdObj::Stream(c)) => (1, c as u64),
            Some(FdObj::Listener(l)) => (2, l as u64),
            Some(FdObj::Event(e)) => (3, e as u64),
            Some(FdObj::Epoll(e)) => (4, e as u64),
            None => (9, 0),
        }
    }

    fn activity_of(&self, fd: Fd) -> u64 {
        match self.obj(fd) {
            Some(FdObj::Stream(c)) => self.conns[c].server.activity,
            Some(FdObj::Listener(l)) => self.listeners[l].activity,
            Some(FdObj::Event(e)) => self.events[e].activity,
            _ => 0,
        }
    }

    fn epoll_ready_list(&self, ep: usize) -> Vec<(Fd, u32, u64)> {
        let mut v = Vec::new();
        for (&fd, &(interest, data)) in self.epolls[ep].interest.iter() {
            // a one-shot registration that already fired reports nothing until re-armed (interest cleared)
            let mut m = self.poll_fd(fd) & ((interest & 0x3fff_ffff) | EPOLLERR | EPOLLHUP);
            if interest & EPOLLIN != 0 && !self.spurious_in.is_empty() {
                if let Some(FdObj::Stream(c)) = self.obj(fd) {
                    if self.spurious_in.contains(&c) {
                        m |= EPOLLIN;
                    }
                }
            }
            if m == 0 {
                continue;
            }
            if interest & EPOLLET != 0 {
                // edge-triggered: only if something happened since it was last reported
                if self.epolls[ep].seen.get(&fd) == Some(&self.activity_of(fd)) {
                    continue;
                }
            }
            v.push((fd, m, data));
        }
        v
    }

    /// Is the epoll descriptor itself readable (something is ready)?
    pub fn epoll_readable(&self, epfd: Fd) -> bool {
        match self.obj(epfd) {
            Some(FdObj::Epoll(e)) => !self.epoll_ready_list(e).is_empty(),
            _ => false,
        }
    }

    /// Ok(None) = would block for ever (timeout -1, nothing ready).
    pub fn epoll_wait(&mut self, epfd: Fd, timeout: i32, max: usize) -> Result<Option<Vec<(u32, u64)>>, i32> {
        self.n_syscalls += 1;
        let ep = match self.obj(epfd) {
            Some(FdObj::Epoll(e)) => e,
            Some(_) => return Err(libc::EINVAL),
            None => return Err(libc::EBADF),
        };
        if max == 0 {
            return Err(libc::EINVAL);
        }
        if std::mem::take(&mut self.next_wait_eintr) {
            self.faults_fired += 1;
            self.push_log(LogEntry::EpollWait { res: Err(libc::EINTR) });
            return Err(libc::EINTR);
        }
        if let Some(e) = self.take_fault(Sys::EpollWait, None) {
            self.push_log(LogEntry::EpollWait { res: Err(e) });
            return Err(e);
        }
        let mut ready = self.epoll_ready_list(ep);
        if ready.is_empty() {
            if timeout < 0 {
                return Ok(None);
            }
            self.push_log(LogEntry::EpollWait { res: Ok(vec![]) });
            return Ok(Some(vec![]));
        }
        // The order of ready events is the kernel's choice (readiness order depends on
        // timing the application does not control): permute by the harness-chosen key,
        // keyed on object identity (creation order), never on descriptor numbers.
        let key = self.next_order_key;
        if key != 0 {
            let mut keyed: Vec<(u64, (Fd, u32, u64))> = ready
                .into_iter()
                .map(|r| {
                    let (k, i) = self.obj_key(r.0);
                    (mix(key ^ mix(k.wrapping_mul(0x1_0000_0001).wrapping_add(i))), r)
                })
                .collect();
            keyed.sort_by_key(|x| x.0);
            ready = keyed.into_iter().map(|x| x.1).collect();
        } else {
            // key 0: creation order of the objects (streams by connection id, then listener, eventfd)
            ready.sort_by_key(|r| self.obj_key(r.0));
        }
        ready.truncate(max);
        if !self.spurious_in.is_empty() {
            // a spurious notification is delivered once
            for &(fd, _, _) in ready.iter() {
                if let Some(FdObj::Stream(c)) = self.obj(fd) {
                    if let Some(p) = self.spurious_in.iter().position(|x| *x == c) {
                        self.spurious_in.remove(p);
                        self.faults_fired += 1;
                    }
                }
            }
        }
        for &(fd, _, _) in ready.iter() {
            let interest = self.epolls[ep].interest.get(&fd).map(|e| e.0).unwrap_or(0);
            if interest & EPOLLET != 0 {
                let a = self.activity_of(fd);
                self.epolls[ep].seen.insert(fd, a);
            }
            if interest & EPOLLONESHOT != 0 {
                if let Some(e) = self.epolls[ep].interest.get_mut(&fd) {
                    e.0 &= EPOLLET | EPOLLONESHOT;
                }
            }
        }
        if self.cfg.log {
            let entry = ready
                .iter()
                .map(|&(fd, m, _)| {
                    let id = match self.obj(fd) {
                        Some(FdObj::Stream(c)) => c,
                        Some(FdObj::Listener(_)) => OBJ_LISTENER,
                        _ => OBJ_EVENTFD,
                    };
                    (id, fd, m)
                })
                .collect();
            self.push_log(LogEntry::EpollWait { res: Ok(entry) });
        }
        Ok(Some(ready.into_iter().map(|(_, m, d)| (m, d)).collect()))
    }

    // ----------------------------------------------------------------- eventfd

    pub fn eventfd_create(&mut self, nonblocking: bool) -> Fd {
        self.n_syscalls += 1;
        self.events.push(EventObj { counter: 0, nonblocking, refs: 1, activity: 0 });
        self.alloc_fd(FdObj::Event(self.events.len() - 1))
    }

    pub fn eventfd_dup(&mut self, fd: Fd) -> Result<Fd, i32> {
        self.n_syscalls += 1;
        match self.obj(fd) {
            Some(FdObj::Event(e)) => {
                self.events[e].refs += 1;
                Ok(self.alloc_fd(FdObj::Event(e)))
            }
            Some(_) => Err(libc::EINVAL),
            None => Err(libc::EBADF),
        }
    }

    pub fn eventfd_write(&mut self, fd: Fd, v: u64) -> Result<(), i32> {
        self.n_syscalls += 1;
        match self.obj(fd) {
            Some(FdObj::Event(e)) => {
                self.events[e].counter = self.events[e].counter.saturating_add(v);
                self.events[e].activity += 1;
                self.push_log(LogEntry::EventWrite { fd });
                Ok(())
            }
            Some(_) => Err(libc::EINVAL),
            None => Err(libc::EBADF),
        }
    }

    /// Ok(None) = would block for ever.
    pub fn eventfd_read(&mut self, fd: Fd) -> Result<Option<u64>, i32> {
        self.n_syscalls += 1;
        match self.obj(fd) {
            Some(FdObj::Event(e)) => {
                self.push_log(LogEntry::EventRead { fd });
                let ev = &mut self.events[e];
                if ev.counter == 0 {
                    if ev.nonblocking {
                        return Err(libc::EAGAIN);
                    }
                    return Ok(None);
                }
                Ok(Some(std::mem::take(&mut ev.counter)))
            }
            Some(_) => Err(libc::EINVAL),
            None => Err(libc::EBADF),
        }
    }

    // ------------------------------------------------------------- observation

    /// open descriptors of the simulated server process
    /// descriptors of the simulated process, without those marked as belonging to something else in
    /// the process (a second server set up before the one under observation)
    pub fn server_fds(&self) -> Vec<(Fd, FdObj)> {
        self.fds
            .iter()
            .enumerate()
            .filter_map(|(i, o)| o.map(|o| (i as Fd, o)))
            .filter(|(fd, _)| !self.foreign_fds.contains(fd))
            .collect()
    }

    /// everything open right now belongs to another component of the process
    pub fn mark_foreign(&mut self) {
        self.foreign_fds = self.fds.iter().enumerate().filter_map(|(i, o)| o.map(|_| i as Fd)).collect();
    }

    pub fn take_log(&mut self) -> Vec<LogEntry> {
        std::mem::take(&mut self.log)
    }
}

impl Drop for World {
    fn drop(&mut self) {
        for c in 0..self.conns.len() {
            self.purge_passed(c);
        }
    }
}
