#!/bin/bash
# tools/round.sh <worktree> <n> <main-prop> [more props...]: confirm a sub-agent's change and look for the first check that catches it
# (main property first, then the given ones, then all the others); prints one JSON line per stage
wt=$1; n=$2; shift 2
all="C01 C02 C03 C04 C05 C06 C07 C08 C09 C10 C11 C12 C13 C14 C18"
order="$*"; for p in $all; do case " $order " in *" $p "*) ;; *) order="$order $p";; esac; done
cd /verif
echo "== confirm $wt $n"; python3 tools/seeded.py confirm $wt $n | tr -d '\n'; echo
echo "== detect $wt $n ($order)"; SEEDED_STOP_AT_FIRST=1 SEEDED_RUNS_SCALE=${SEEDED_RUNS_SCALE:-0.6} python3 tools/seeded.py detect_scratch $wt $n $order | tr -d '\n'; echo
