#!/usr/bin/env python3
"""Handling of independently written property-breaking changes (sub-agent output).

  seeded.py confirm <wt> <n>           in the scratch worktree: suite passes with the change, demo fails
                                       with it and passes without it
  seeded.py detect  <wt> <n> <prop>... apply the change to /repo, run the quick checks, undo
  seeded.py keep    <wt> <n> <id> <prop> <json-meta>   store under /verif/seeded/<id>/
"""
import json, os, shutil, subprocess, sys, tempfile, time

VERIF = os.path.dirname(os.path.dirname(os.path.abspath(__file__)))
SIM = os.environ.get("SEEDED_SIM", os.path.join(VERIF, "sim"))
BIN = os.path.join(SIM, "target", "release", "mhsim")


def sh(cmd, cwd=None, timeout=900):
    e = dict(os.environ, CARGO_NET_OFFLINE="true")
    # own process group, killed as a whole on timeout (a changed library may spin for ever)
    p = subprocess.Popen(cmd, cwd=cwd, shell=True, stdout=subprocess.PIPE, stderr=subprocess.STDOUT, text=True, env=e, start_new_session=True)
    try:
        out, _ = p.communicate(timeout=timeout)
        return p.returncode, out
    except subprocess.TimeoutExpired:
        import signal
        try:
            os.killpg(p.pid, signal.SIGKILL)
        except ProcessLookupError:
            pass
        out, _ = p.communicate()
        return 124, (out or "") + "\n[timed out after %s s; process group killed]" % timeout


def confirm(wt, n):
    out = {}
    d = os.path.join(wt, "_out")
    diff = os.path.join(d, "change%s.diff" % n)
    demo = os.path.join(d, "demo%s.rs" % n)
    sh("git checkout -- . ; rm -rf tests", cwd=wt)
    rc, o = sh("git apply --check %s" % diff, cwd=wt)
    out["applies"] = rc == 0
    if rc != 0:
        print(o)
        return out
    sh("git apply %s" % diff, cwd=wt)
    rc, o = sh("cargo test --workspace --no-fail-fast --offline 2>&1 | grep -E '^test result'", cwd=wt)
    out["suite_with_change"] = o.strip().splitlines()
    out["suite_passes_with_change"] = all(" 0 failed" in l for l in out["suite_with_change"]) and len(out["suite_with_change"]) >= 2
    os.makedirs(os.path.join(wt, "tests"), exist_ok=True)
    shutil.copy(demo, os.path.join(wt, "tests", "seed_demo.rs"))
    rc, o = sh("timeout 600 cargo test --offline --test seed_demo 2>&1 | tail -15", cwd=wt)
    out["demo_fails_with_change"] = "test result: FAILED" in o or "panicked" in o or "error: test failed" in o
    out["demo_with_change_tail"] = o.strip().splitlines()[-4:]
    sh("git checkout -- src", cwd=wt)
    rc, o = sh("timeout 600 cargo test --offline --test seed_demo 2>&1 | tail -6", cwd=wt)
    out["demo_passes_without_change"] = "test result: ok" in o and "FAILED" not in o
    out["demo_without_change_tail"] = o.strip().splitlines()[-3:]
    sh("rm -rf tests", cwd=wt)
    return out


def detect(wt, n, props):
    diff = os.path.join(wt, "_out", "change%s.diff" % n)
    rc, o = sh("git -C /repo status --porcelain --untracked-files=no")
    if o.strip():
        print("/repo dirty, refusing")
        sys.exit(2)
    res = {}
    tmp = tempfile.mkdtemp(prefix="mhseed")
    shutil.copy(os.path.join(VERIF, "known_findings.json"), tmp)
    try:
        rc, o = sh("git -C /repo apply %s" % diff)
        if rc != 0:
            print("apply failed", o)
            return res
        rc, o = sh("cargo build --release --offline --quiet", cwd=SIM)
        if rc != 0:
            print("build failed", o[-2000:])
            return res
        for p in props:
            t0 = time.time()
            rc, o = sh("%s run --prop %s --tier quick --no-evidence --verif-dir %s" % (BIN, p, tmp))
            cls = [l.strip() for l in o.splitlines() if l.strip().startswith("class=")]
            det = [l.strip() for l in o.splitlines() if l.strip().startswith("detail=")]
            res[p] = {"exit": rc, "class": cls[:1], "detail": [x[:300] for x in det[:1]], "s": round(time.time() - t0, 1)}
    finally:
        sh("git -C /repo checkout -- .")
        sh("cargo build --release --offline --quiet", cwd=SIM)
        shutil.rmtree(tmp, ignore_errors=True)
    return res


def detect_scratch(wt, n, props):
    """Like detect, but without touching /repo's working tree: the change is applied to a scratch
    worktree and a copy of the sim workspace is pointed at it (used while background runs that
    build from /repo are in flight)."""
    diff = os.path.join(wt, "_out", "change%s.diff" % n)
    tag = "%s-%s" % (os.path.basename(wt), n)
    scratch = "/tmp/mhscratch-" + tag
    simcopy = "/tmp/mhsimcopy-" + tag
    res = {}
    tmp = tempfile.mkdtemp(prefix="mhseed")
    shutil.copy(os.path.join(VERIF, "known_findings.json"), tmp)
    try:
        sh("git -C /repo worktree add --detach %s HEAD -q" % scratch)
        rc, o = sh("git apply %s" % diff, cwd=scratch)
        if rc != 0:
            print("apply failed", o)
            return res
        sh("rm -rf %s; mkdir -p %s; cd %s && tar cf - --exclude=target --exclude=target-small . | (cd %s && tar xf -)" % (simcopy, simcopy, SIM, simcopy))
        mf = os.path.join(simcopy, "mh", "Cargo.toml")
        text = open(mf).read().replace("/repo/src/lib.rs", scratch + "/src/lib.rs")
        open(mf, "w").write(text)
        rc, o = sh("CARGO_TARGET_DIR=/tmp/mhsim-target-%s cargo build --release --offline --quiet" % tag, cwd=simcopy)
        if rc != 0:
            print("build failed", o[-2000:])
            return res
        binp = "/tmp/mhsim-target-%s/release/mhsim" % tag
        for p in props:
            t0 = time.time()
            scale = os.environ.get("SEEDED_RUNS_SCALE")
            extra = (" --runs-scale %s" % scale) if scale else ""
            rc, o = sh("%s run --prop %s --tier quick --no-evidence --verif-dir %s%s" % (binp, p, tmp, extra))
            cls = [l.strip() for l in o.splitlines() if l.strip().startswith("class=")]
            det = [l.strip() for l in o.splitlines() if l.strip().startswith("detail=")]
            res[p] = {"exit": rc, "class": cls[:1], "detail": [x[:300] for x in det[:1]], "s": round(time.time() - t0, 1)}
            if os.environ.get("SEEDED_STOP_AT_FIRST") and rc == 1:
                break
            if os.environ.get("SEEDED_KEEP_REPLAYS") and rc != 0:
                import glob
                os.makedirs(os.environ["SEEDED_KEEP_REPLAYS"], exist_ok=True)
                for f in glob.glob(os.path.join(tmp, "replays", "*.json")):
                    shutil.copy(f, os.environ["SEEDED_KEEP_REPLAYS"])
    finally:
        sh("git -C /repo worktree remove --force %s" % scratch)
        shutil.rmtree(simcopy, ignore_errors=True)
        shutil.rmtree("/tmp/mhsim-target-%s" % tag, ignore_errors=True)
        shutil.rmtree(tmp, ignore_errors=True)
    return res


def corpus(only=None):
    """For every stored seeded change: apply it to a scratch worktree, run its property's quick
    check there and keep the minimised replay that exposes it as /verif/corpus/<id>.replay.json.
    On the unchanged tree these traces must show no violation; they are replayed at the start of
    every check as regression inputs."""
    import glob
    os.makedirs(os.path.join(VERIF, "corpus"), exist_ok=True)
    for d in sorted(glob.glob(os.path.join(VERIF, "seeded", "*"))):
        sid = os.path.basename(d)
        if only and sid not in only:
            continue
        meta = json.load(open(os.path.join(d, "meta.json")))
        prop = meta["property"]
        scratch = "/tmp/mhscratch-" + sid
        simcopy = "/tmp/mhsimcopy-" + sid
        tdir = "/tmp/mhsim-target-corpus"
        tmp = tempfile.mkdtemp(prefix="mhcorp")
        shutil.copy(os.path.join(VERIF, "known_findings.json"), tmp)
        try:
            sh("git -C /repo worktree add --detach %s HEAD -q" % scratch)
            rc, o = sh("git apply %s" % os.path.join(d, "patch.diff"), cwd=scratch)
            if rc != 0:
                print(sid, "apply failed")
                continue
            sh("rm -rf %s; mkdir -p %s; cd %s && tar cf - --exclude=target --exclude=target-small . | (cd %s && tar xf -)" % (simcopy, simcopy, SIM, simcopy))
            mf = os.path.join(simcopy, "mh", "Cargo.toml")
            text = open(mf).read().replace("/repo/src/lib.rs", scratch + "/src/lib.rs")
            open(mf, "w").write(text)
            rc, o = sh("CARGO_TARGET_DIR=%s cargo build --release --offline --quiet" % tdir, cwd=simcopy)
            if rc != 0:
                print(sid, "build failed")
                continue
            rc, o = sh("%s/release/mhsim run --prop %s --tier quick --no-evidence --verif-dir %s" % (tdir, prop, tmp))
            reps = glob.glob(os.path.join(tmp, "replays", "*.json"))
            if rc == 1 and reps:
                dst = os.path.join(VERIF, "corpus", sid + ".replay.json")
                j = json.load(open(reps[0]))
                j.pop("unminimised_case", None)
                j["origin"] = "minimised trace that exposes seeded change %s (%s)" % (sid, meta["change"])
                json.dump(j, open(dst, "w"))
                print(sid, "kept", j["violation"]["class"])
            elif rc == 70:
                # the process crashed (abort / stack overflow): find the run that crashes alone and keep a
                # replay that regenerates it from (seed, index), as ./check does
                import re
                m = re.search(r"CRASH signal=\d+ inflight=([\d,]*)", o)
                kept = False
                for idx in [int(x) for x in (m.group(1).split(",") if m else []) if x]:
                    rc2, _ = sh("%s/release/mhsim run --prop %s --first %d --runs 1 --threads 1 --no-evidence --verif-dir %s" % (tdir, prop, idx, tmp))
                    if rc2 == 70 or rc2 < 0:
                        cls = "%s:abort" % prop
                        j = {"property": prop, "seed": 20261001, "run_index": idx,
                             "case": {"engine": "generator", "seed": 20261001, "index": idx, "thorough": False},
                             "violation": {"class": cls, "step": 0, "detail": "the process crashed while executing this run"},
                             "signature": cls, "window": 1024,
                             "origin": "run that exposes seeded change %s (%s): the process crashes" % (sid, meta["change"])}
                        json.dump(j, open(os.path.join(VERIF, "corpus", sid + ".replay.json"), "w"))
                        print(sid, "kept", cls)
                        kept = True
                        break
                if not kept:
                    print(sid, "CRASH not reproducible alone")
            else:
                print(sid, "NOT DETECTED rc=%d" % rc)
        finally:
            sh("git -C /repo worktree remove --force %s" % scratch)
            shutil.rmtree(simcopy, ignore_errors=True)
            shutil.rmtree(tmp, ignore_errors=True)
    shutil.rmtree("/tmp/mhsim-target-corpus", ignore_errors=True)


def noalarm(only=None):
    """Apply every stored behaviour-preserving refactoring to a scratch worktree and run ALL quick
    checks (40% of the runs) against it: every one must stay silent."""
    import glob
    props = ["C01", "C02", "C03", "C04", "C05", "C06", "C07", "C08", "C09", "C10", "C11", "C12", "C13", "C14", "C18"]
    bad = 0
    for d in sorted(glob.glob(os.path.join(VERIF, "refactorings", "*"))):
        rid = os.path.basename(d)
        if only and rid not in only:
            continue
        fake = "/tmp/mhref-" + rid
        os.makedirs(os.path.join(fake, "_out"), exist_ok=True)
        shutil.copy(os.path.join(d, "patch.diff"), os.path.join(fake, "_out", "change1.diff"))
        os.environ["SEEDED_RUNS_SCALE"] = "0.4"
        res = detect_scratch(fake, "1", props)
        shutil.rmtree(fake, ignore_errors=True)
        alarms = {k: v for k, v in res.items() if v["exit"] != 0}
        print(rid, "silent on %d checks" % len(res) if not alarms and len(res) == len(props) else "ALARM/ERROR %s" % alarms)
        if alarms or len(res) != len(props):
            bad += 1
    return bad


def keep(wt, n, sid, prop, meta):
    d = os.path.join(VERIF, "seeded", sid)
    os.makedirs(d, exist_ok=True)
    shutil.copy(os.path.join(wt, "_out", "change%s.diff" % n), os.path.join(d, "patch.diff"))
    shutil.copy(os.path.join(wt, "_out", "demo%s.rs" % n), os.path.join(d, "demo.rs"))
    m = json.loads(meta)
    m["property"] = prop
    json.dump(m, open(os.path.join(d, "meta.json"), "w"), indent=1)


if __name__ == "__main__":
    cmd = sys.argv[1]
    if cmd == "confirm":
        print(json.dumps(confirm(sys.argv[2], sys.argv[3]), indent=1))
    elif cmd == "detect":
        print(json.dumps(detect(sys.argv[2], sys.argv[3], sys.argv[4:]), indent=1))
    elif cmd == "detect_scratch":
        print(json.dumps(detect_scratch(sys.argv[2], sys.argv[3], sys.argv[4:]), indent=1))
    elif cmd == "corpus":
        corpus(sys.argv[2:] or None)
    elif cmd == "noalarm":
        sys.exit(1 if noalarm(sys.argv[2:] or None) else 0)
    elif cmd == "keep":
        keep(*sys.argv[2:7])
